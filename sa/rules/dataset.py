'''Rules on eponine.dataset.Dataset: C08 (arithmetic, copy, purity) and C09
(slicing, squeezing); QUAD is shared with C05 / C07.'''
import ast
from collections import Counter

from ..astutil import (dotted, call_name, receiver, txt, calls_in,
                       walk_local, enclosing_chain, lexically_inside)
from ..cfg import CFG
from ..loader import AnalysisError
from . import verdict as V

DS = 'valjean.eponine.dataset:Dataset'
OPS = {'__add__': 'add', '__sub__': 'sub', '__mul__': 'mul',
       '__truediv__': 'div'}
NONNEG_FUNCS = {'sqrt', 'hypot', 'abs', 'fabs', 'absolute', 'square'}
SHAPE_KEEPERS = {'copy', 'squeeze', 'reshape', 'ravel', 'flatten',
                 'masked_array', 'array', 'asarray', 'transpose'}
MUTATORS = {'pop', 'popitem', 'update', 'clear', 'setdefault', 'sort',
            'fill', 'resize', 'put', 'itemset', 'append', 'extend',
            'insert', 'remove', 'reverse', 'move_to_end', '__setitem__',
            '__delitem__'}
NP_MUTATORS = {'put', 'place', 'copyto', 'fill_diagonal', 'putmask',
               'shuffle'}


def dataset_class(program):
    klass = program.cls(DS)
    if not getattr(program, '_ds_wrappers_inlined', False):
        program._ds_wrappers_inlined = True
        program._ds_wrappers = inline_ctor_wrappers(klass)
    return klass


CTOR_NAMES = ('Dataset', 'self.__class__', 'type(self)', 'cls')


def _ctor_wrapper(meth):
    '''(params, defaults, ctor call) when the method is nothing but
    `return Dataset(<expressions of its parameters and self>)`.'''
    body = [s for s in meth.node.body
            if not (isinstance(s, ast.Expr) and
                    isinstance(s.value, ast.Constant))]
    if len(body) != 1 or not isinstance(body[0], ast.Return) or not \
            isinstance(body[0].value, ast.Call) or \
            txt(body[0].value.func) not in CTOR_NAMES:
        return None
    args = meth.node.args
    if args.vararg or args.kwarg or args.posonlyargs or args.kwonlyargs or \
            not args.args or args.args[0].arg != 'self':
        return None
    params = [a.arg for a in args.args[1:]]
    call = body[0].value
    fwd = [ctor_arg(call, 0, 'value'), ctor_arg(call, 1, 'error')]
    if not params or not all(isinstance(a, ast.Name) and a.id in params
                             for a in fwd):
        # only helpers that FORWARD value and error are inlined
        return None
    defaults = dict(zip(params[len(params) - len(args.defaults):],
                        args.defaults))
    return params, defaults, body[0].value


def inline_ctor_wrappers(klass):
    '''self._helper(a, b) -> Dataset(a, b, bins=self.bins, ...) when the
    helper only forwards to the constructor: the rules then see the
    construction where it is used (a refactoring of the operators through
    such a helper leaves every rule instance in place).'''
    import copy
    wrappers = {}
    for name, meth in klass.methods.items():
        wrap = _ctor_wrapper(meth)
        if wrap is not None and name not in OPS:
            wrappers[name] = wrap
    if not wrappers:
        return set()

    class Inline(ast.NodeTransformer):
        def visit_Call(self, node):
            self.generic_visit(node)
            if not (isinstance(node.func, ast.Attribute) and
                    txt(node.func.value) == 'self' and
                    node.func.attr in wrappers):
                return node
            params, defaults, ctor = wrappers[node.func.attr]
            if any(isinstance(a, ast.Starred) for a in node.args) or any(
                    k.arg is None for k in node.keywords) or \
                    len(node.args) > len(params):
                return node
            bound = dict(zip(params, node.args))
            for kwd in node.keywords:
                if kwd.arg not in params or kwd.arg in bound:
                    return node
                bound[kwd.arg] = kwd.value
            for par in params:
                if par not in bound:
                    if par not in defaults:
                        return node
                    bound[par] = defaults[par]

            class Subst(ast.NodeTransformer):
                def visit_Name(self, name):
                    if name.id in bound and isinstance(name.ctx, ast.Load):
                        return copy.deepcopy(bound[name.id])
                    return name
            new = Subst().visit(copy.deepcopy(ctor))
            for sub in ast.walk(new):
                ast.copy_location(sub, node)
            return new

    for name, meth in klass.methods.items():
        if name in wrappers:
            continue
        Inline().visit(meth.node)
    return set(wrappers)


def local_defs(func):
    defs = {}
    for node in walk_local(func.node):
        if isinstance(node, ast.Assign) and len(node.targets) == 1 and \
                isinstance(node.targets[0], ast.Name):
            defs.setdefault(node.targets[0].id, []).append(node.value)
    return defs


def dataset_ctor_calls(func):
    '''Dataset(...) / self.__class__(...) constructions in a method.'''
    out = []
    for call in calls_in(func.node):
        ftxt = txt(call.func)
        if ftxt in CTOR_NAMES:
            out.append(call)
    return out


def ctor_arg(call, pos, name):
    for kwd in call.keywords:
        if kwd.arg == name:
            return kwd.value
    if len(call.args) > pos:
        return call.args[pos]
    return None


def resolve_local(expr, defs, depth=0):
    '''Follow a local name to its single definition.'''
    while isinstance(expr, ast.Name) and expr.id in defs and \
            len(defs[expr.id]) == 1 and depth < 5:
        expr = defs[expr.id][0]
        depth += 1
    return expr


# ------------------------------------------------------------ DS-SIGN ---

def sign_of(expr, defs, other_is_dataset, params, depth=0):
    '''("nonneg" | "any" | "unknown", reason).'''
    expr = resolve_local(expr, defs)
    if depth > 12:
        return 'unknown', 'too deep'
    if isinstance(expr, ast.Constant) and isinstance(expr.value, (int,
                                                                  float)):
        return ('nonneg', '') if expr.value >= 0 else ('any', 'negative '
                                                       'constant')
    if isinstance(expr, ast.Attribute) and expr.attr == 'error':
        base = txt(expr.value)
        if base == 'self' or (base in params and other_is_dataset):
            return 'nonneg', ''
        return 'unknown', f'{txt(expr)}'
    if isinstance(expr, ast.Name):
        if expr.id in params:
            return 'any', f'free operand `{expr.id}` of unknown sign'
        return 'unknown', f'name {expr.id}'
    if isinstance(expr, ast.Call):
        cname = call_name(expr)
        if cname in NONNEG_FUNCS:
            return 'nonneg', ''
        if cname in SHAPE_KEEPERS:
            inner = receiver(expr) if receiver(expr) is not None and \
                dotted(receiver(expr)) not in ('np', 'numpy', 'np.ma') \
                else (expr.args[0] if expr.args else None)
            if inner is None:
                return 'unknown', txt(expr)
            return sign_of(inner, defs, other_is_dataset, params, depth + 1)
        return 'unknown', f'call {txt(expr)[:40]}'
    if isinstance(expr, ast.Subscript):
        return sign_of(expr.value, defs, other_is_dataset, params,
                       depth + 1)
    if isinstance(expr, ast.BinOp):
        if isinstance(expr.op, ast.Pow) and isinstance(
                expr.right, ast.Constant) and isinstance(
                    expr.right.value, int) and expr.right.value % 2 == 0:
            return 'nonneg', ''
        left = sign_of(expr.left, defs, other_is_dataset, params, depth + 1)
        right = sign_of(expr.right, defs, other_is_dataset, params,
                        depth + 1)
        if isinstance(expr.op, (ast.Mult, ast.Div, ast.Add)):
            if left[0] == 'nonneg' and right[0] == 'nonneg':
                return 'nonneg', ''
            if isinstance(expr.op, (ast.Mult, ast.Div)):
                for a, b in ((left, right), (right, left)):
                    if a[0] == 'any' and b[0] in ('nonneg', 'any'):
                        return 'any', a[1]
            if isinstance(expr.op, ast.Add):
                for a in (left, right):
                    if a[0] == 'any':
                        return 'any', a[1]
            return 'unknown', left[1] or right[1]
        if isinstance(expr.op, ast.Sub):
            return 'any' if 'unknown' not in (left[0], right[0]) else \
                'unknown', 'difference'
    if isinstance(expr, ast.UnaryOp) and isinstance(expr.op, ast.USub):
        return 'any', 'negation'
    if isinstance(expr, ast.IfExp):
        a = sign_of(expr.body, defs, other_is_dataset, params, depth + 1)
        b = sign_of(expr.orelse, defs, other_is_dataset, params, depth + 1)
        if a[0] == b[0] == 'nonneg':
            return 'nonneg', ''
        return ('any', a[1] or b[1]) if 'any' in (a[0], b[0]) else \
            ('unknown', a[1] or b[1])
    return 'unknown', txt(expr)[:40]


def _other_is_dataset(func, call, parents):
    '''Is the construction on a path where `other` is known to be a
    Dataset?  (after `if not isinstance(other, Dataset): return ...`)'''
    params = [p for p in func.params if p != 'self']
    if not params:
        return False
    other = params[0]
    # inside `if not isinstance(other, Dataset):` body -> not a dataset
    cur = call
    while parents.get(id(cur)) is not None:
        par = parents[id(cur)]
        if isinstance(par, ast.If) and 'isinstance' in txt(par.test) and \
                'Dataset' in txt(par.test) and other in txt(par.test):
            negated = isinstance(par.test, ast.UnaryOp)
            in_body = any(cur is s or cur in list(ast.walk(s))
                          for s in par.body)
            return (not negated) if in_body else negated
        cur = par
    # after an early-return guard `if not isinstance(other, Dataset):
    # return` earlier in the function
    for node in func.node.body:
        if isinstance(node, ast.If) and 'isinstance' in txt(node.test) and \
                'Dataset' in txt(node.test) and isinstance(
                    node.test, ast.UnaryOp) and any(
                        isinstance(s, (ast.Return, ast.Raise))
                        for s in node.body) and node.lineno < call.lineno:
            if isinstance(node.test.operand, ast.Call) and \
                    'Dataset' == txt(node.test.operand.args[1]):
                return True
    return False


def check_ds_sign(ctx):
    klass = dataset_class(ctx.program)
    n = 0
    for meth in klass.methods.values():
        if meth.name == '__init__' or meth.name in getattr(
                ctx.program, '_ds_wrappers', ()):
            # a forwarding helper is judged where it is used (inlined)
            continue
        defs = local_defs(meth)
        parents = enclosing_chain(meth.node)
        params = {p for p in meth.params if p != 'self'}
        for call in dataset_ctor_calls(meth):
            err = ctor_arg(call, 1, 'error')
            if err is None:
                continue
            n += 1
            is_ds = _other_is_dataset(meth, call, parents)
            sign, why = sign_of(err, defs, is_ds, params)
            construct = f'{meth.name}: error = {txt(resolve_local(err, defs))[:70]}'
            if sign == 'nonneg':
                ctx.holds('DS-SIGN', meth, construct, at=meth.where(call))
            elif sign == 'any':
                ctx.violated('DS-SIGN', meth, construct, at=meth.where(call),
                             detail=f'the error of the result can be '
                                    f'negative: {why} reaches it through a '
                                    f'sign-preserving operation (witness: a '
                                    f'negative number)')
            else:
                ctx.undecided('DS-SIGN', meth, construct,
                              at=meth.where(call), detail=why)
    ctx.floor('DS-SIGN', n, 10, 'Dataset(...) constructions in Dataset '
              'methods')


# ---------------------------------------------------------------- QUAD ---

def _factors(expr, num, den, power=1):
    '''Flatten products / quotients into factor multisets.'''
    if isinstance(expr, ast.BinOp) and isinstance(expr.op, ast.Mult):
        _factors(expr.left, num, den, power)
        _factors(expr.right, num, den, power)
    elif isinstance(expr, ast.BinOp) and isinstance(expr.op, ast.Div):
        _factors(expr.left, num, den, power)
        _factors(expr.right, den, num, power)
    elif isinstance(expr, ast.BinOp) and isinstance(expr.op, ast.Pow) and \
            isinstance(expr.right, ast.Constant) and isinstance(
                expr.right.value, int):
        _factors(expr.left, num, den, power * expr.right.value)
    else:
        num[txt(expr)] += power


def quad_terms(expr, defs):
    '''Terms under the root of sqrt(A**2 + B**2 ...) / hypot(A, B): list of
    (numerator Counter, denominator Counter), or None.'''
    expr = resolve_local(expr, defs)
    if not isinstance(expr, ast.Call):
        return None
    cname = call_name(expr)
    if cname == 'hypot' and len(expr.args) == 2:
        terms = list(expr.args)
    elif cname == 'sqrt' and len(expr.args) == 1:
        terms = []
        todo = [expr.args[0]]
        while todo:
            cur = todo.pop()
            if isinstance(cur, ast.BinOp) and isinstance(cur.op, ast.Add):
                todo += [cur.left, cur.right]
            elif isinstance(cur, ast.BinOp) and isinstance(cur.op, ast.Sub):
                return 'minus-under-root'
            else:
                inner, erased = V.strip_sign_erasure(cur)
                if not erased:
                    return None
                terms.append(inner)
    else:
        return None
    out = []
    for term in terms:
        num, den = Counter(), Counter()
        _factors(term, num, den)
        # cancel common factors
        for key in list(num):
            common = min(num[key], den.get(key, 0))
            if common:
                num[key] -= common
                den[key] -= common
        out.append((frozenset((+num).items()), frozenset((+den).items())))
    return out


def _req(kind, other):
    se, oe, sv, ov = 'self.error', f'{other}.error', 'self.value', \
        f'{other}.value'

    def term(num, den=()):
        return (frozenset(Counter(num).items()),
                frozenset(Counter(den).items()))
    if kind in ('add', 'sub'):
        return {term([se]), term([oe])}
    if kind == 'mul':
        return {term([se, ov]), term([oe, sv])}
    return {term([se], [ov]), term([sv, oe], [ov, ov])}


def check_quad(ctx, kinds=('add', 'sub', 'mul', 'div'), nan_strict=False):
    '''nan_strict: the caller's property quantifies over NaN / infinite
    errors (C05, C07): hypot(inf, NaN) is +inf (C99 Annex F, followed by
    numpy) where sqrt(inf**2 + NaN**2) is NaN, so hypot masks an undefined
    error and the statistic built on it becomes 0 instead of NaN.'''
    klass = dataset_class(ctx.program)
    n = 0
    for mname, kind in OPS.items():
        if kind not in kinds:
            continue
        meth = klass.methods.get(mname)
        if meth is None:
            continue
        defs = local_defs(meth)
        parents = enclosing_chain(meth.node)
        other = [p for p in meth.params if p != 'self'][0]
        for call in dataset_ctor_calls(meth):
            if not _other_is_dataset(meth, call, parents):
                continue
            err = ctor_arg(call, 1, 'error')
            if err is None:
                continue
            n += 1
            shown = txt(resolve_local(err, defs))[:80]
            construct = f'{mname}: error = {shown}'
            terms = quad_terms(err, defs)
            rcall = resolve_local(err, defs)
            if nan_strict and isinstance(rcall, ast.Call) and \
                    call_name(rcall) == 'hypot':
                ctx.violated('QUAD', meth, construct, at=meth.where(call),
                             detail='hypot(inf, NaN) = inf: an undefined '
                                    'error on one side only is masked by an '
                                    'infinite error on the other (the '
                                    'statistic becomes 0 and passes); '
                                    'sqrt(a**2 + b**2) keeps the NaN')
            elif terms == 'minus-under-root':
                ctx.violated('QUAD', meth, construct, at=meth.where(call),
                             detail='a difference under the root')
            elif terms is None:
                rexpr = resolve_local(err, defs)
                plain_sum = isinstance(rexpr, ast.BinOp) and isinstance(
                    rexpr.op, (ast.Add, ast.Sub)) and 'error' in txt(rexpr)
                if plain_sum:
                    ctx.violated('QUAD', meth, construct,
                                 at=meth.where(call),
                                 detail='errors combined linearly, not in '
                                        'quadrature')
                elif isinstance(rexpr, ast.Attribute) and \
                        rexpr.attr == 'error':
                    ctx.violated('QUAD', meth, construct,
                                 at=meth.where(call),
                                 detail='the error of the other operand '
                                        'does not enter the result')
                else:
                    ctx.undecided('QUAD', meth, construct,
                                  at=meth.where(call))
            else:
                ok = set(terms) == _req(kind, other) and \
                    len(terms) == 2
                ctx.decide('QUAD', meth, construct, ok, at=meth.where(call),
                           detail={'terms': [[sorted(dict(n_).items()),
                                              sorted(dict(d_).items())]
                                             for n_, d_ in terms],
                                   'required': f'first-order uncorrelated '
                                               f'propagation for {kind}'})
    ctx.floor('QUAD', n, len(kinds), 'dataset-dataset error expressions')


# ------------------------------------------------------------- DS-CTOR ---

def _bypasses_ctor(klass, expr, defs, depth=0):
    """The expression evaluates to a Dataset allocated with __new__ (directly,
    through a local name, or through a helper method of the class that
    allocates with __new__ and never calls the constructor)."""
    expr = resolve_local(expr, defs)
    if not isinstance(expr, ast.Call) or depth > 2:
        return None
    if isinstance(expr.func, ast.Attribute) and expr.func.attr == '__new__':
        return expr
    if isinstance(expr.func, ast.Attribute) and txt(expr.func.value) in (
            'self', 'Dataset', 'cls'):
        helper = klass.methods.get(expr.func.attr)
        if helper is not None and not dataset_ctor_calls(helper):
            hdefs = local_defs(helper)
            for ret in walk_local(helper.node):
                if isinstance(ret, ast.Return) and ret.value is not None:
                    found = _bypasses_ctor(klass, ret.value, hdefs,
                                           depth + 1)
                    if found is not None:
                        return found
    return None


def check_ds_ctor(ctx):
    """Well-formedness of the results of `dataset <op> number-or-array`: the
    value `self.value <op> other` takes the BROADCAST shape of the two
    operands, the error keeps the shape of self.error; only the checks of
    Dataset.__init__ refuse a result whose value and error (and bins)
    disagree.  A result of that branch allocated with __new__ is therefore
    ill-formed for every array operand of a bigger shape."""
    klass = dataset_class(ctx.program)
    n = 0
    for mname in OPS:
        meth = klass.methods.get(mname)
        if meth is None:
            continue
        defs = local_defs(meth)
        parents = enclosing_chain(meth.node)
        for ret in walk_local(meth.node):
            if not isinstance(ret, ast.Return) or ret.value is None or \
                    txt(ret.value) == 'NotImplemented':
                continue
            n += 1
            construct = f'{mname}: return {txt(ret.value)[:50]}'
            alloc = _bypasses_ctor(klass, ret.value, defs)
            if alloc is None:
                ctx.holds('DS-CTOR', meth, construct, at=meth.where(ret),
                          nontrivial=False)
            elif not _other_is_dataset(meth, ret.value, parents):
                ctx.violated(
                    'DS-CTOR', meth, construct, at=meth.where(ret),
                    detail=f'result of the number / array branch allocated '
                           f'with `{txt(alloc)[:40]}`: Dataset.__init__ does '
                           f'not run, so nothing refuses a value broadcast '
                           f'to a bigger shape than the error and the bins '
                           f'(witness: dataset of shape (5,) + array of '
                           f'shape (2, 5))')
            else:
                ctx.undecided('DS-CTOR', meth, construct, at=meth.where(ret),
                              detail='dataset-dataset result built without '
                                     'the constructor')
    ctx.floor('DS-CTOR', n, 8, 'returns of the four operators')


# ------------------------------------------------- DS-LEFT / DS-SHAPE ---

def _left_origin(klass, expr, attr, other, defs, depth=0):
    '''True: the expression is self.<attr> (or a copy / view of it); False:
    it is absent, or comes from the other operand; None: unknown.'''
    if expr is None:
        return False
    expr = resolve_local(expr, defs)
    shown = txt(expr)
    if shown == f'self.{attr}' or shown.startswith(f'self.{attr}.') or \
            shown.startswith(f'self.{attr}['):
        return True
    if isinstance(expr, ast.Call) and call_name(expr) in (
            'copy', 'deepcopy', 'OrderedDict', 'dict') and \
            f'self.{attr}' in shown and f'{other}.' not in shown:
        return True
    if any(isinstance(n, ast.Name) and n.id == other
           for n in ast.walk(expr)) and not (
               isinstance(expr, ast.Call) and isinstance(
                   expr.func, ast.Attribute) and
               txt(expr.func.value) == 'self'):
        return False
    if isinstance(expr, ast.Call) and isinstance(
            expr.func, ast.Attribute) and txt(expr.func.value) == 'self' \
            and depth < 2:
        helper = klass.methods.get(expr.func.attr)
        if helper is not None:
            hdefs = local_defs(helper)
            hother = {p: a for p, a in zip(
                [q for q in helper.params if q != 'self'], expr.args)}
            kinds = set()
            for ret in walk_local(helper.node):
                if isinstance(ret, ast.Return) and ret.value is not None:
                    oth = [p for p, a in hother.items() if txt(a) == other]
                    kinds.add(_left_origin(klass, ret.value, attr,
                                           oth[0] if oth else '\0', hdefs,
                                           depth + 1))
            if False in kinds:
                return False
            if kinds == {True}:
                return True
    return None


def check_ds_left(ctx):
    klass = dataset_class(ctx.program)
    n = 0
    for mname in OPS:
        meth = klass.methods.get(mname)
        if meth is None:
            continue
        rets = [r for r in walk_local(meth.node) if isinstance(r, ast.Return)
                and r.value is not None]
        defs = local_defs(meth)
        ctors = {id(c) for c in dataset_ctor_calls(meth)}
        for ret in rets:
            n += 1
            call = ret.value
            if not (isinstance(call, ast.Call) and id(call) in ctors):
                ctx.undecided('DS-LEFT', meth, f'{mname}: returns '
                              f'{txt(call)[:50]} (not a Dataset(...) '
                              f'construction)', at=meth.where(ret))
                continue
            bins = ctor_arg(call, None if True else 2, 'bins')
            name = ctor_arg(call, 99, 'name')
            other = [p for p in meth.params if p != 'self'][0]
            ok_b = _left_origin(klass, bins, 'bins', other, defs)
            ok_n = _left_origin(klass, name, 'name', other, defs)
            ctx.decide('DS-LEFT', meth, f'{mname}: bins={txt(bins) if bins is not None else None}, '
                       f'name={txt(name) if name is not None else None}',
                       False if False in (ok_b, ok_n) else
                       None if None in (ok_b, ok_n) else True,
                       at=meth.where(call),
                       detail='bins and name of the left operand are kept')
    ctx.floor('DS-LEFT', n, 8, 'returns of the four operators')


OP_NODES = {'__add__': ast.Add, '__sub__': ast.Sub, '__mul__': ast.Mult,
            '__truediv__': ast.Div}


def check_op_direct(ctx):
    '''The value of `a <op> b` is the plain array operation
    `a.value <op> b[.value]`: every return of an operator builds a Dataset
    whose value is that binary operation; delegating to ANOTHER operator
    (a / k as a * (1 / k), a - b as a + (-b)) is recognised-wrong: the
    result differs by double rounding and in its behaviour for zeros and
    infinities.'''
    klass = dataset_class(ctx.program)
    n = 0
    for mname, opcls in OP_NODES.items():
        meth = klass.methods.get(mname)
        if meth is None:
            raise AnalysisError(f'Dataset.{mname} not found')
        defs = local_defs(meth)
        for ret in walk_local(meth.node):
            if not isinstance(ret, ast.Return) or ret.value is None:
                continue
            n += 1
            val = ret.value
            if isinstance(val, ast.Call) and call_name(val) == 'Dataset':
                arg = ctor_arg(val, 0, 'value')
                arg = resolve_local(arg, defs) if arg is not None else None
                good = isinstance(arg, ast.BinOp) and isinstance(
                    arg.op, opcls) and txt(arg.left) == 'self.value' and \
                    txt(arg.right) in ('other', 'other.value')
                other_op = isinstance(arg, ast.BinOp) and not isinstance(
                    arg.op, opcls) and 'self.value' in txt(arg)
                ctx.decide('OP-DIRECT', meth,
                           f'{mname}: value = {txt(arg)[:50] if arg is not None else "?"}',
                           True if good else False if other_op else None,
                           at=meth.where(ret))
                continue
            # delegation to another operator of the dataset
            delegates = isinstance(val, ast.BinOp) and txt(val.left) in (
                'self',) or (isinstance(val, ast.Call) and isinstance(
                    val.func, ast.Attribute) and txt(val.func.value) ==
                    'self' and val.func.attr in OP_NODES)
            if val is not None and txt(val) == 'NotImplemented':
                n -= 1
                continue
            ctx.decide('OP-DIRECT', meth, f'{mname}: returns '
                       f'{txt(val)[:50]}', False if delegates else None,
                       at=meth.where(ret),
                       detail='computed through another operator: not the '
                              'value of the plain array operation (double '
                              'rounding, ZeroDivisionError for a zero '
                              'constant)' if delegates else None)
        _check_operand_kept(ctx, klass, meth)
    ctx.floor('OP-DIRECT', n, 8, 'returns of the four operators')


LOSSY_CONVERSIONS = {'astype', 'int', 'round', 'around', 'round_', 'trunc',
                     'floor', 'ceil', 'rint', 'fix', 'float16', 'float32',
                     'int8', 'int16', 'int32', 'int64', 'intc', 'int_',
                     'clip', 'nan_to_num'}
LOSSLESS_CONVERSIONS = {'asarray', 'asanyarray', 'array', 'atleast_1d',
                        'float64', 'double', 'float'}


def _conversion_kind(klass, expr, pname, depth=0):
    '''"lossy" / "lossless" / None for an expression the operand `pname` is
    re-bound to.'''
    if isinstance(expr, ast.Name) and expr.id == pname:
        return 'lossless'
    if isinstance(expr, ast.IfExp):
        kinds = {_conversion_kind(klass, e, pname, depth)
                 for e in (expr.body, expr.orelse)}
        return 'lossy' if 'lossy' in kinds else \
            'lossless' if kinds == {'lossless'} else None
    if not isinstance(expr, ast.Call):
        return None
    cname = call_name(expr)
    inner = [a for a in list(expr.args) + ([receiver(expr)] if receiver(
        expr) is not None else []) if any(
            isinstance(n, ast.Name) and n.id == pname for n in ast.walk(a))]
    if not inner:
        return None
    if cname in LOSSY_CONVERSIONS:
        return 'lossy'
    if cname in LOSSLESS_CONVERSIONS:
        return 'lossless'
    if isinstance(expr.func, ast.Attribute) and txt(expr.func.value) in (
            'self', 'Dataset', 'cls') and depth < 2:
        helper = klass.methods.get(expr.func.attr)
        if helper is not None:
            hpars = [p for p in helper.params if p not in ('self', 'cls')]
            # which helper parameter receives the operand
            pos = [i for i, a in enumerate(expr.args) if a in inner]
            if pos and pos[0] < len(hpars):
                kinds = set()
                for ret in walk_local(helper.node):
                    if isinstance(ret, ast.Return) and ret.value is not None:
                        kinds.add(_conversion_kind(klass, ret.value,
                                                   hpars[pos[0]], depth + 1))
                if 'lossy' in kinds:
                    return 'lossy'
                if kinds == {'lossless'}:
                    return 'lossless'
    return None


def _check_operand_kept(ctx, klass, meth):
    '''`a <op> b` uses b itself: an operator that re-binds its operand to a
    CONVERTED value (astype to the dataset's dtype, rounding, clipping)
    computes another operation for the operands the conversion changes (an
    integer dataset times np.float64(0.5) becomes times 0).'''
    params = [p for p in meth.params if p != 'self']
    if not params:
        return
    other = params[0]
    for node in walk_local(meth.node):
        if isinstance(node, ast.Assign) and any(
                isinstance(t, ast.Name) and t.id == other
                for t in node.targets):
            kind = _conversion_kind(klass, node.value, other)
            ctx.decide('OP-DIRECT', meth,
                       f'{meth.name}: operand re-bound: {txt(node)[:60]}',
                       True if kind == 'lossless' else
                       False if kind == 'lossy' else None,
                       at=meth.where(node),
                       detail='the operand is converted before the '
                              'operation: the result is no longer '
                              'self.value <op> other for the operands the '
                              'conversion changes' if kind == 'lossy'
                       else None)


def check_ds_shape(ctx):
    klass = dataset_class(ctx.program)
    init = klass.methods.get('__init__')
    if init is None:
        raise AnalysisError('Dataset.__init__ not found')
    cfg = CFG(init.node, may_raise=lambda n: isinstance(n, ast.Raise))
    stores = {}
    for node in cfg.nodes:
        if node.kind == 'stmt' and isinstance(node.ast, ast.Assign):
            tgt = txt(node.ast.targets[0])
            if tgt in ('self.value', 'self.error', 'self.bins'):
                stores[tgt] = node
    if len(stores) < 3:
        raise AnalysisError('stores of self.value/error/bins not found in '
                            'Dataset.__init__')

    def raises_on(node, label):
        # does the `label` successor of the test lead straight to a raise?
        for nxt, lab in node.succ:
            if lab == label:
                seen, todo = set(), [nxt]
                while todo:
                    cur = todo.pop()
                    if cur.id in seen:
                        continue
                    seen.add(cur.id)
                    if cur.kind == 'raisestmt':
                        return True
                    if cur.kind == 'stmt':
                        todo += [s for s, l in cur.succ if l == '']
        return False

    def is_shape_test(node):
        if node.kind != 'test':
            return False
        t = txt(node.ast)
        return 'value.shape' in t and 'error.shape' in t

    def is_bins_len_test(node):
        if node.kind != 'test':
            return False
        t = txt(node.ast)
        return 'len(' in t and 'shape' in t and ('zip' in t or 'bins' in t)

    for tgt in ('self.value', 'self.error'):
        store = stores[tgt]
        ok = True
        npaths = 0
        for path in cfg.paths(cfg.entry, stop_ids={store.id}):
            if path[-1][0] is not store:
                continue
            npaths += 1
            if not any(is_shape_test(n) and (
                    (lab == 'false' and raises_on(n, 'true')) or
                    (lab == 'true' and raises_on(n, 'false')))
                       for n, lab in path):
                ok = False
        ctx.decide('DS-SHAPE', init, f'{tgt} stored only after the '
                   f'value/error shape test', ok if npaths else None,
                   at=init.where(store.ast), detail={'paths': npaths})
    store = stores['self.bins']
    ok = True
    npaths = 0
    for path in cfg.paths(cfg.entry, stop_ids={store.id}):
        if path[-1][0] is not store:
            continue
        npaths += 1
        given = any(n.kind == 'test' and txt(n.ast) in (
            'bins is not None',) and lab == 'true' for n, lab in path) or \
            any(n.kind == 'test' and txt(n.ast) == 'bins is None' and
                lab == 'false' for n, lab in path)
        # an EMPTY dictionary of bins has nothing to test (the shipped test
        # short-circuits on it: `bins and any(...)`)
        empty = any(n.kind == 'test' and (
            (txt(n.ast) == 'not bins' and lab == 'true') or
            (txt(n.ast) == 'bins' and lab == 'false') or
            (txt(n.ast).replace(' ', '') in ('len(bins)==0',) and
             lab == 'true')) for n, lab in path)
        # the test written per dimension, inside a loop over the bins
        # (`for coord, dim in zip(bins.values(), value.shape): if len(coord)
        # not in (dim, dim + 1): raise`): going through the loop IS the test
        looped = any(
            n.kind == 'iter' and 'bins' in txt(n.ast.iter) and any(
                isinstance(t, ast.If) and 'len(' in txt(t.test) and any(
                    isinstance(r, ast.Raise) for r in t.body) and any(
                        isinstance(c, ast.Compare) and isinstance(
                            c.ops[0], (ast.NotIn, ast.In))
                        for c in ast.walk(t.test))
                for t in ast.walk(n.ast))
            for n, lab in path)
        if given and not empty and not looped and not any(
                is_bins_len_test(n) and lab == 'false' and
                raises_on(n, 'true') for n, lab in path):
            ok = False
    ctx.decide('DS-SHAPE', init, 'self.bins stored only after the '
               'per-dimension N or N+1 test when bins are given',
               ok if npaths else None, at=init.where(store.ast),
               detail={'paths': npaths})
    # the test itself accepts exactly N and N+1
    for node in cfg.nodes:
        if is_bins_len_test(node):
            sets = [n for n in ast.walk(node.ast) if isinstance(
                n, ast.Compare) and isinstance(n.ops[0], (ast.NotIn,
                                                          ast.In))]
            for cmp_ in sets:
                comp = cmp_.comparators[0]
                if isinstance(comp, (ast.Tuple, ast.List, ast.Set)):
                    forms = sorted(txt(e) for e in comp.elts)
                    ok = len(forms) == 2 and forms[1].replace(' ', '') in (
                        forms[0] + '+1', '1+' + forms[0])
                    ctx.decide('DS-SHAPE', init, f'admissible bin lengths '
                               f'{txt(comp)}', ok, at=init.where(cmp_))


# ------------------------------------------------------------ DS-PURE ---

def check_ds_pure(ctx):
    '''No method (other than __init__) writes into self / the other operand
    or into anything aliased to their fields.'''
    klass = dataset_class(ctx.program)
    n = 0
    for meth in klass.methods.values():
        if meth.name == '__init__':
            continue
        n += 1
        params = [p for p in meth.params]
        roots = {'self'} | {p for p in params if p in ('other',)}
        # ownership of locals: 'alias' (same object as a field of a root),
        # 'container' (fresh container, shared leaves), else fresh/unknown
        owner = {}
        for node in walk_local(meth.node):
            if isinstance(node, ast.Assign) and len(node.targets) == 1 and \
                    isinstance(node.targets[0], ast.Name):
                val = node.value
                name = node.targets[0].id
                base = val
                while isinstance(base, (ast.Attribute, ast.Subscript)):
                    base = base.value
                if isinstance(val, (ast.Attribute, ast.Subscript)) and \
                        isinstance(base, ast.Name) and base.id in roots:
                    owner[name] = 'alias'
                elif isinstance(val, ast.Call) and call_name(val) == 'copy' \
                        and receiver(val) is not None and isinstance(
                            receiver(val), ast.Attribute) and txt(
                                receiver(val)).split('.')[0] in roots and \
                        receiver(val).attr == 'bins':
                    owner[name] = 'container'
        found = []

        def rooted(expr):
            '''"root" | "leaf-of-container" | None for a store target.'''
            depth = 0
            cur = expr
            while isinstance(cur, (ast.Attribute, ast.Subscript)):
                depth += 1
                cur = cur.value
            if isinstance(cur, ast.Name):
                if cur.id in roots and depth >= 1:
                    return 'root'
                if owner.get(cur.id) == 'alias':
                    return 'root' if depth >= 1 else None
                if owner.get(cur.id) == 'container' and depth >= 2:
                    return 'leaf'
            return None
        for node in walk_local(meth.node):
            if isinstance(node, (ast.Assign, ast.AugAssign, ast.Delete)):
                tgts = node.targets if isinstance(
                    node, (ast.Assign, ast.Delete)) else [node.target]
                for tgt in tgts:
                    if isinstance(tgt, (ast.Attribute, ast.Subscript)) and \
                            rooted(tgt):
                        found.append((node, f'store {txt(tgt)[:50]}'))
                    if isinstance(node, ast.AugAssign) and isinstance(
                            tgt, ast.Name) and owner.get(tgt.id) == 'alias':
                        found.append((node, f'in-place {txt(node)[:50]}'))
            if isinstance(node, ast.Call):
                cname = call_name(node)
                recv = receiver(node)
                if cname in MUTATORS and recv is not None:
                    base = recv
                    depth = 0
                    while isinstance(base, (ast.Attribute, ast.Subscript)):
                        base = base.value
                        depth += 1
                    if isinstance(base, ast.Name) and (
                            (base.id in roots and depth >= 1) or
                            (owner.get(base.id) == 'alias') or
                            (owner.get(base.id) == 'container' and
                             depth >= 1)):
                        found.append((node, f'mutating call '
                                            f'{txt(node)[:50]}'))
                if cname in NP_MUTATORS and node.args and rooted(
                        node.args[0]):
                    found.append((node, f'numpy in-place {txt(node)[:50]}'))
                for kwd in node.keywords:
                    if kwd.arg == 'out' and (rooted(kwd.value) or (
                            isinstance(kwd.value, ast.Name) and owner.get(
                                kwd.value.id) == 'alias')):
                        found.append((node, f'out= {txt(node)[:50]}'))
        if found:
            for node, what in found:
                ctx.violated('DS-PURE', meth, f'{meth.name}: {what}',
                             at=meth.where(node),
                             detail='writes into an operand (or into data '
                                    'shared with it)')
        else:
            ctx.holds('DS-PURE', meth, f'{meth.name}: no write into self / '
                      f'other / their fields', at=meth.where(),
                      nontrivial=False)
    ctx.floor('DS-PURE', n, 15, 'methods of Dataset')
    # second opinion: inter-procedural write-effect analysis (library model
    # of sa/effects.py, e.g. numpy.ma functions called with copy=False
    # modify the mask of their argument in place)
    from .. import effects
    analyzer = effects.Analyzer(ctx.program, max_depth=3)
    for meth in klass.methods.values():
        if meth.name == '__init__':
            continue
        summ = analyzer.summary(meth)
        seen = set()
        for eff in summ.effects:
            if eff.what in seen:
                continue
            seen.add(eff.what)
            pname = meth.params[eff.root] if eff.root < len(meth.params) \
                else f'#{eff.root}'
            key = f'{meth.name}: {eff.what}'
            if any(o.rule == 'DS-PURE' and o.construct.startswith(
                    f'{meth.name}: ') and o.outcome == 'violated'
                   for o in ctx.obligations):
                continue        # already reported by the local rule
            ctx.violated('DS-PURE', meth, key,
                         at=f'{eff.func.module.relpath}:{eff.lineno}',
                         detail=f'writes into operand `{pname}`'
                                f'{"." + eff.field if eff.field else ""}: '
                                + eff.describe())


# ------------------------------------------------------------ DS-COPY ---

def freshness(expr):
    '''"deep" | "shallow" | "alias" | "unknown" of a value built from a
    field of self.'''
    if isinstance(expr, ast.Call):
        cname = call_name(expr)
        recv = receiver(expr)
        if cname == 'deepcopy':
            return 'deep'
        if cname == 'copy' and recv is not None and not expr.args:
            # array.copy() is deep for arrays; dict.copy() is shallow
            return 'copy-method'
        if cname in ('array', 'copy') and expr.args:
            return 'deep-array'
        if cname in ('OrderedDict', 'dict') and expr.args:
            arg = expr.args[0]
            if isinstance(arg, ast.DictComp):
                return freshness(arg)
            if isinstance(arg, (ast.GeneratorExp, ast.ListComp)):
                elt = arg.elt
                if isinstance(elt, ast.Tuple) and len(elt.elts) == 2 and \
                        freshness(elt.elts[1]) in ('copy-method', 'deep',
                                                   'deep-array'):
                    return 'deep'
            return 'shallow'
    if isinstance(expr, ast.DictComp):
        if freshness(expr.value) in ('copy-method', 'deep', 'deep-array'):
            return 'deep'
        return 'shallow'
    if isinstance(expr, (ast.Attribute, ast.Name)):
        return 'alias'
    return 'unknown'


def check_ds_copy(ctx):
    klass = dataset_class(ctx.program)
    meth = klass.methods.get('copy')
    if meth is None:
        raise AnalysisError('Dataset.copy not found')
    calls = dataset_ctor_calls(meth)
    ctx.floor('DS-COPY', len(calls), 1, 'Dataset(...) in copy()')
    defs = local_defs(meth)
    for call in calls:
        for pos, field, mapping in ((0, 'value', False), (1, 'error', False),
                                    (2, 'bins', True)):
            arg = ctor_arg(call, pos if field != 'bins' else 99, field)
            if arg is None:
                ctx.undecided('DS-COPY', meth, f'{field} not passed',
                              at=meth.where(call))
                continue
            arg = resolve_local(arg, defs)
            kind = freshness(arg)
            if mapping:
                ok = True if kind == 'deep' else False if kind in (
                    'copy-method', 'shallow', 'alias') else None
                why = 'the mapping is copied but the bin arrays are shared ' \
                      'with the original' if ok is False else None
            else:
                ok = True if kind in ('copy-method', 'deep', 'deep-array') \
                    else False if kind == 'alias' else None
                why = None
            ctx.decide('DS-COPY', meth, f'copy: {field}={txt(arg)[:60]}', ok,
                       at=meth.where(call), detail=why)


# ------------------------------------------------------------------ C09 ---

def edge_slice_function(program):
    '''The function deriving the slice of the EDGES from the slice of the
    cells: `_get_bins_slice` of the shipped code, or - after a refactoring -
    the function of dataset.py with one parameter whose every return is
    `slice(<..>, <..>, <parameter>.step)`.'''
    klass = dataset_class(program)
    meth = klass.methods.get('_get_bins_slice')
    if meth is not None and not _thin_alias(meth):
        return meth
    cands = []
    for func in klass.module.functions.values():
        pars = [p for p in func.params if p not in ('self', 'cls')]
        if len(pars) != 1:
            continue
        rets = [n for n in walk_local(func.node)
                if isinstance(n, ast.Return) and n.value is not None]
        if rets and all(isinstance(r.value, ast.Call) and call_name(
                r.value) == 'slice' and len(r.value.args) == 3 and txt(
                    r.value.args[2]) == f'{pars[0]}.step' for r in rets):
            cands.append(func)
    return cands[0] if len(cands) == 1 else None


def _thin_alias(func):
    '''Name of the function that `func` merely forwards its parameter to
    (`return other(index)`), else None.'''
    body = [st for st in func.node.body if not (isinstance(
        st, ast.Expr) and isinstance(st.value, ast.Constant))]
    pars = [p for p in func.params if p not in ('self', 'cls')]
    if len(body) == 1 and isinstance(body[0], ast.Return) and isinstance(
            body[0].value, ast.Call) and len(pars) == 1 and [
                txt(a) for a in body[0].value.args] == pars and \
            not body[0].value.keywords:
        return call_name(body[0].value)
    return None


def edge_slice_names(program):
    '''Names under which the edge-slice function is called: its own and
    those of thin aliases of it.'''
    real = edge_slice_function(program)
    names = {real.name} if real is not None else {'_get_bins_slice'}
    klass = dataset_class(program)
    for func in list(klass.methods.values()) + list(
            klass.module.functions.values()):
        if _thin_alias(func) in names:
            names.add(func.name)
    return names


def check_slice_apply(ctx):
    klass = dataset_class(ctx.program)
    meth = klass.methods.get('__getitem__')
    if meth is None:
        raise AnalysisError('Dataset.__getitem__ not found')
    idx = [p for p in meth.params if p != 'self'][0]
    defs = local_defs(meth)
    calls = dataset_ctor_calls(meth)
    ctx.floor('SLICE-APPLY', len(calls), 1, 'Dataset(...) in __getitem__')
    for call in calls:
        val = resolve_local(ctor_arg(call, 0, 'value'), defs)
        err = resolve_local(ctor_arg(call, 1, 'error'), defs)
        bins = resolve_local(ctor_arg(call, 99, 'bins'), defs)
        # the index itself, or its normal form as a tuple of slices
        # (`slices = (index,) if isinstance(index, slice) else index`)
        same = {idx}
        for _ in range(3):
            for nam, vals in defs.items():
                if nam not in same and vals and all(
                        txt(v) in same or (isinstance(v, ast.Tuple) and len(
                            v.elts) == 1 and txt(v.elts[0]) in same) or (
                                isinstance(v, ast.IfExp) and all(
                                    txt(b) in same or (isinstance(
                                        b, ast.Tuple) and len(b.elts) == 1
                                        and txt(b.elts[0]) in same)
                                    for b in (v.body, v.orelse)))
                        for v in vals):
                    same.add(nam)
        def same_index(expr):
            '''True: the index (or its tuple normal form); None: a local
            produced by a call this rule does not read; False: anything
            else.'''
            if txt(expr) in same:
                return True
            if isinstance(expr, ast.Name) and any(
                    isinstance(v, ast.Call) and any(
                        txt(a) in same for a in v.args)
                    for v in defs.get(expr.id, [])):
                return None
            return False

        def conj(*vals):
            return False if any(v is False for v in vals) else \
                None if any(v is None for v in vals) else True
        ok_v = isinstance(val, ast.Subscript) and txt(val.value) == \
            'self.value' and same_index(val.slice)
        ok_e = isinstance(err, ast.Subscript) and txt(err.value) == \
            'self.error' and same_index(err.slice)
        ok_b = isinstance(bins, ast.Call) and dotted(
            receiver(bins)) == 'self' and (
                True if any(txt(a) in same for a in bins.args) else
                conj(*[same_index(a) for a in bins.args]) if bins.args
                else False)
        ctx.decide('SLICE-APPLY', meth, f'value={txt(val)}, error='
                   f'{txt(err)}, bins={txt(bins)[:40]}',
                   conj(ok_v, ok_e, ok_b), at=meth.where(call),
                   detail='value, error and bins are selected by the same '
                          'index')


class _SliceState:
    def __init__(self):
        self.vals = {}       # name -> linear form / ('none',) / ('slice',..)
        self.facts = {'start': {'none', 'neg', 'zero', 'pos'},
                      'stop': {'none', 'neg', 'zero', 'pos'}}
        # an integer bound is a Python int or a numpy integer scalar (the
        # result of np.searchsorted, of len() arithmetic on arrays ...)
        self.kinds = {'start': {'py', 'np'}, 'stop': {'py', 'np'}}
        self.trace = []

    def clone(self):
        new = _SliceState()
        new.vals = dict(self.vals)
        new.facts = {k: set(v) for k, v in self.facts.items()}
        new.kinds = {k: set(v) for k, v in self.kinds.items()}
        new.trace = list(self.trace)
        return new


def _slice_table(func):
    '''Symbolic execution (over signs) of the function deriving the bins
    slice from the cell slice.  Returns list of (state, out_start, out_stop,
    out_step, return node) or None if outside the fragment.'''
    idx = [p for p in func.params if p not in ('self', 'cls')][0]
    results = []
    unsupported = []

    def sym(expr, st):
        if isinstance(expr, ast.Attribute) and txt(expr.value) == idx and \
                expr.attr in ('start', 'stop', 'step'):
            return {expr.attr: 1}
        if isinstance(expr, ast.Name) and expr.id in st.vals and \
                isinstance(st.vals[expr.id], dict):
            return None
        return None

    def value(expr, st):
        if isinstance(expr, ast.Name):
            if expr.id == idx:
                return ('slice', {'start': 1}, {'stop': 1}, {'step': 1})
            return st.vals.get(expr.id)
        if isinstance(expr, ast.Constant) and expr.value is None:
            return ('none',)
        if isinstance(expr, ast.Call) and call_name(expr) == 'slice' and \
                len(expr.args) == 3:
            return ('slice',) + tuple(value(a, st) for a in expr.args)

        def leaf(e):
            if isinstance(e, ast.Attribute) and txt(e.value) == idx and \
                    e.attr in ('start', 'stop', 'step'):
                return e.attr
            # another parameter of the function (a length): a foreign symbol
            if isinstance(e, ast.Name) and e.id in func.params and \
                    e.id != idx and e.id not in st.vals:
                return '@' + e.id
            return None
        # substitute locals
        class Sub(ast.NodeTransformer):
            def visit_Name(self, node):
                return node
        form = V.linear(_subst(expr, st), leaf)
        return form

    def _subst(expr, st):
        import copy as _copy
        expr = _copy.deepcopy(expr)

        class Sub(ast.NodeTransformer):
            def visit_Name(self, node):
                val = st.vals.get(node.id)
                if isinstance(val, dict):
                    return _form_to_ast(val)
                return node
        return Sub().visit(expr)

    def _form_to_ast(form):
        out = None
        for key, coef in form.items():
            term = ast.Constant(value=coef) if key == 1 else ast.BinOp(
                left=ast.Constant(value=coef), op=ast.Mult(),
                right=ast.Name(id=key[1:], ctx=ast.Load())
                if str(key).startswith('@') else
                ast.Attribute(value=ast.Name(id=idx, ctx=ast.Load()),
                              attr=key, ctx=ast.Load()))
            out = term if out is None else ast.BinOp(left=out, op=ast.Add(),
                                                     right=term)
        return out or ast.Constant(value=0)

    def comp_of(expr, st):
        '''Which incoming component does the expression denote (unchanged)?'''
        form = value(expr, st)
        if isinstance(form, dict) and len(form) == 1:
            (key, coef), = form.items()
            if coef == 1 and key in ('start', 'stop'):
                return key
        return None

    def cond(expr, st):
        '''(true states, false states).'''
        if isinstance(expr, ast.BoolOp):
            if isinstance(expr.op, ast.And):
                falses, pend = [], [st]
                for val in expr.values:
                    nxt = []
                    for cur in pend:
                        tru, fal = cond(val, cur)
                        falses += fal
                        nxt += tru
                    pend = nxt
                return pend, falses
            trues, pend = [], [st]
            for val in expr.values:
                nxt = []
                for cur in pend:
                    tru, fal = cond(val, cur)
                    trues += tru
                    nxt += fal
                pend = nxt
            return trues, pend
        if isinstance(expr, ast.UnaryOp) and isinstance(expr.op, ast.Not):
            tru, fal = cond(expr.operand, st)
            return fal, tru
        if isinstance(expr, ast.Call) and isinstance(
                expr.func, ast.Name) and expr.func.id == 'isinstance' and \
                len(expr.args) == 2:
            comp = comp_of(expr.args[0], st)
            typ = txt(expr.args[1])
            if comp is not None:
                py_only = typ == 'int'
                both = all(w in typ for w in ('int', 'integer')) or \
                    'Integral' in typ
                if py_only or both:
                    # true: an integer (of the accepted kinds); false: None,
                    # or an integer of the other kind
                    tru = st.clone()
                    tru.facts[comp] -= {'none'}
                    if py_only:
                        tru.kinds[comp] &= {'py'}
                    tru.trace.append(f'{txt(expr)} -> true')
                    falses = []
                    if 'none' in st.facts[comp]:
                        fal = st.clone()
                        fal.facts[comp] = {'none'}
                        fal.trace.append(f'{txt(expr)} -> false (None)')
                        falses.append(fal)
                    if py_only and 'np' in st.kinds[comp] and \
                            st.facts[comp] - {'none'}:
                        fal = st.clone()
                        fal.facts[comp] -= {'none'}
                        fal.kinds[comp] = {'np'}
                        fal.trace.append(f'{txt(expr)} -> false (numpy '
                                         f'integer)')
                        falses.append(fal)
                    ok = tru.facts[comp] and tru.kinds[comp]
                    return ([tru] if ok else []), falses
        if isinstance(expr, ast.Compare) and len(expr.ops) == 1:
            comp = comp_of(expr.left, st)
            right = expr.comparators[0]
            op = expr.ops[0]
            if comp is not None and isinstance(right, ast.Constant):
                if right.value is None and isinstance(op, (ast.Is, ast.IsNot,
                                                           ast.Eq,
                                                           ast.NotEq)):
                    isnone = isinstance(op, (ast.Is, ast.Eq))
                    sets = ({'none'}, {'neg', 'zero', 'pos'})
                    tset, fset = sets if isnone else sets[::-1]
                elif right.value == 0 and type(op) in V._CMP:
                    rows = V._CMP[type(op)]
                    tset = {{'lt': 'neg', 'eq': 'zero', 'gt': 'pos'}[r]
                            for r in rows if r != 'unordered'}
                    fset = {'neg', 'zero', 'pos'} - tset
                    # comparing None with 0 raises: None is excluded on
                    # both outcomes only if tested before; keep 'none' out
                else:
                    unsupported.append(txt(expr))
                    return [st.clone()], [st.clone()]
                tru, fal = st.clone(), st.clone()
                tru.facts[comp] &= tset
                fal.facts[comp] &= fset
                tru.trace.append(f'{txt(expr)} -> true')
                fal.trace.append(f'{txt(expr)} -> false')
                return ([tru] if tru.facts[comp] else []), \
                    ([fal] if fal.facts[comp] else [])
        unsupported.append(txt(expr))
        return [st.clone()], [st.clone()]

    def assign(name, expr, st):
        if isinstance(expr, ast.IfExp):
            out = []
            tru, fal = cond(expr.test, st)
            for cur in tru:
                out += assign(name, expr.body, cur)
            for cur in fal:
                out += assign(name, expr.orelse, cur)
            return out
        st.vals[name] = value(expr, st)
        return [st]

    def block(stmts, states):
        for stmt in stmts:
            nxt = []
            for st in states:
                nxt += step(stmt, st)
            states = nxt
        return states

    def step(stmt, st):
        if isinstance(stmt, ast.Expr):
            return [st]
        if isinstance(stmt, ast.Assign) and len(stmt.targets) == 1:
            tgt = stmt.targets[0]
            if isinstance(tgt, ast.Name):
                return assign(tgt.id, stmt.value, st)
            if isinstance(tgt, ast.Tuple) and isinstance(
                    stmt.value, ast.Tuple) and len(tgt.elts) == len(
                        stmt.value.elts):
                states = [st]
                for sub, val in zip(tgt.elts, stmt.value.elts):
                    nxt = []
                    for cur in states:
                        nxt += assign(sub.id, val, cur)
                    states = nxt
                return states
        if isinstance(stmt, ast.AugAssign) and isinstance(stmt.target,
                                                          ast.Name):
            expr = ast.BinOp(left=ast.Name(id=stmt.target.id,
                                           ctx=ast.Load()),
                             op=stmt.op, right=stmt.value)
            return assign(stmt.target.id, expr, st)
        if isinstance(stmt, ast.If):
            tru, fal = cond(stmt.test, st)
            return block(stmt.body, tru) + block(stmt.orelse, fal)
        if isinstance(stmt, ast.Return):
            val = stmt.value
            if isinstance(val, ast.Call) and call_name(val) == 'slice' and \
                    any(isinstance(a, ast.IfExp) for a in val.args):
                # conditional expressions written in place (or inlined by
                # the normal form): evaluate them as temporaries first
                import copy as _copy
                val = _copy.copy(val)
                val.args = list(val.args)
                states = [st]
                for pos, arg in enumerate(val.args):
                    if isinstance(arg, ast.IfExp):
                        nxt = []
                        for cur in states:
                            nxt += assign(f'__arg{pos}', arg, cur)
                        states = nxt
                        val.args[pos] = ast.Name(id=f'__arg{pos}',
                                                 ctx=ast.Load())
                for cur in states:
                    results.append((cur, value(val, cur), stmt))
                return []
            if isinstance(val, ast.IfExp):
                tru, fal = cond(val.test, st)
                for cur in tru:
                    results.append((cur, value(val.body, cur), stmt))
                for cur in fal:
                    results.append((cur, value(val.orelse, cur), stmt))
            else:
                results.append((st, value(val, st), stmt))
            return []
        unsupported.append(type(stmt).__name__)
        return [st]

    block(func.node.body, [_SliceState()])
    return results, unsupported


def check_slice_sign(ctx):
    '''Decision table of the cell-slice -> edge-slice adjustment over
    sign(start) x sign(stop).'''
    klass = dataset_class(ctx.program)
    meth = edge_slice_function(ctx.program)
    if meth is None:
        # the adjustment may have been inlined elsewhere
        raise AnalysisError('Dataset._get_bins_slice not found')
    results, unsupported = _slice_table(meth)
    ctx.floor('SLICE-SIGN', len(results), 1, 'returns of _get_bins_slice')
    ctx.stats['slice_table_rows'] = len(results)
    if unsupported:
        ctx.undecided('SLICE-SIGN', meth, 'constructs outside the fragment: '
                      + ', '.join(sorted(set(unsupported)))[:80],
                      at=meth.where())
        return
    for st, out, ret in results:
        where = meth.where(ret)
        row = f"start in {sorted(st.facts['start'])}, stop in " \
              f"{sorted(st.facts['stop'])}"
        for comp_ in ('start', 'stop'):
            if st.kinds[comp_] == {'np'}:
                row += f', {comp_} a numpy integer'
        if not (isinstance(out, tuple) and out[0] == 'slice'):
            ctx.undecided('SLICE-SIGN', meth, f'return value not a slice '
                          f'[{row}]', at=where)
            continue
        _, ostart, ostop, ostep = out
        # start
        sfacts = st.facts['start'] - {'none'}
        if 'neg' in sfacts and sfacts & {'zero', 'pos'}:
            ctx.violated(
                'SLICE-SIGN', meth, f'start forwarded without telling '
                f'negative from non-negative [{row}]', at=where,
                detail='edges are one longer than cells: a negative start '
                       'denotes a different edge than cell (witness: '
                       'ds[-2:] on 5 cells / 6 edges returns 2 edges)')
        elif sfacts == {'neg'}:
            ctx.holds('SLICE-SIGN', meth, f'start sign known [{row}]',
                      at=where)
            ctx.decide('SLICE-LIN', meth, f'negative start -> {ostart} '
                       f'[{row}]', None if ostart is None else
                       ostart == {'start': 1, 1: -1}, at=where,
                       detail='lower edge of cell N+s is edge N+s, i.e. '
                              'index s-1 from the end of the edges')
        else:
            ctx.holds('SLICE-SIGN', meth, f'start sign known [{row}]',
                      at=where)
            ctx.decide('SLICE-LIN', meth, f'non-negative/None start -> '
                       f'{ostart} [{row}]', None if ostart is None else
                       ostart == {'start': 1}, at=where)
        # stop
        pfacts = st.facts['stop'] - {'none'}
        if len(pfacts) > 1:
            pfacts = pfacts - {'zero'}   # stop == 0 retains no cell
        if 'pos' in pfacts and pfacts & {'neg'}:
            ctx.violated('SLICE-SIGN', meth, f'stop forwarded without '
                         f'telling positive from negative [{row}]', at=where)
        elif pfacts == {'pos'}:
            ctx.decide('SLICE-LIN', meth, f'positive stop -> {ostop} '
                       f'[{row}]', None if ostop is None else
                       ostop == {'stop': 1, 1: 1}, at=where,
                       detail='upper edge of the last retained cell')
        elif pfacts and pfacts <= {'neg', 'zero'}:
            ctx.decide('SLICE-LIN', meth, f'non-positive stop -> {ostop} '
                       f'[{row}]', None if ostop is None else
                       ostop == {'stop': 1}, at=where)
        else:
            ctx.decide('SLICE-LIN', meth, f'None stop -> {ostop} [{row}]',
                       ostop == {'stop': 1} or ostop == ('none',), at=where)
        ctx.decide('SLICE-LIN', meth, f'step unchanged -> {ostep} [{row}]',
                   ostep == {'step': 1}, at=where, nontrivial=False)


def check_squeeze(ctx):
    klass = dataset_class(ctx.program)
    meth = klass.methods.get('squeeze')
    if meth is None:
        raise AnalysisError('Dataset.squeeze not found')
    n = 0
    for node in walk_local(meth.node):
        if isinstance(node, ast.If) and any(
                isinstance(c, ast.Call) and call_name(c) in ('pop',
                                                             '__delitem__')
                for s in node.body for c in ast.walk(s)) or (
                    isinstance(node, ast.If) and any(
                        isinstance(s, ast.Delete) for s in node.body)):
            test = node.test
            names = {n.id for n in ast.walk(test) if isinstance(n, ast.Name)}
            if len(names) != 1:
                ctx.undecided('SQUEEZE-CMP', meth, f'predicate {txt(test)}',
                              at=meth.where(node))
                continue
            var = names.pop()
            n += 1
            try:
                code = compile(ast.Expression(body=test), '<guard>', 'eval')
                vals = {d: bool(eval(code, {'__builtins__': {}}, {var: d}))
                        for d in range(0, 8)}
            except Exception:   # pylint: disable=broad-except
                ctx.undecided('SQUEEZE-CMP', meth, f'predicate {txt(test)}',
                              at=meth.where(node))
                continue
            ok = vals == {d: d == 1 for d in range(0, 8)}
            ctx.decide('SQUEEZE-CMP', meth, f'bins dropped when `{txt(test)}`'
                       , ok, at=meth.where(node),
                       detail={'true_for_lengths': [d for d, v in
                                                    vals.items() if v],
                               'required': 'exactly length 1 (what numpy '
                                           'squeeze removes); length 0 '
                                           'keeps its axis (witness: '
                                           'ds[0:0, :].squeeze() raises '
                                           'ValueError)'})
    # comprehension spelling: the bins that are KEPT satisfy a filter
    for node in walk_local(meth.node):
        if not isinstance(node, (ast.GeneratorExp, ast.ListComp,
                                 ast.DictComp)):
            continue
        for gen in node.generators:
            if 'bins' not in txt(gen.iter) or not gen.ifs:
                continue
            test = gen.ifs[0] if len(gen.ifs) == 1 else ast.BoolOp(
                op=ast.And(), values=list(gen.ifs))
            names = {x.id for x in ast.walk(test) if isinstance(x, ast.Name)}
            if len(names) != 1:
                ctx.undecided('SQUEEZE-CMP', meth, f'filter {txt(test)}',
                              at=meth.where(node))
                continue
            var = names.pop()
            n += 1
            try:
                code = compile(ast.fix_missing_locations(
                    ast.Expression(body=test)), '<filter>', 'eval')
                vals = {d: bool(eval(code, {'__builtins__': {}}, {var: d}))
                        for d in range(0, 8)}
            except Exception:   # pylint: disable=broad-except
                ctx.undecided('SQUEEZE-CMP', meth, f'filter {txt(test)}',
                              at=meth.where(node))
                continue
            ok = vals == {d: d != 1 for d in range(0, 8)}
            ctx.decide('SQUEEZE-CMP', meth, f'bins kept when `{txt(test)}`',
                       ok, at=meth.where(node),
                       detail={'kept_for_lengths': [d for d, v in
                                                    vals.items() if v],
                               'required': 'every length but 1: numpy '
                                           'squeeze keeps a dimension of '
                                           'length 0'})
    ctx.floor('SQUEEZE-CMP', n, 1, 'predicate guarding the removal of bins '
              'in squeeze')
    # value and error are squeezed alike
    for call in dataset_ctor_calls(meth):
        val, err = ctor_arg(call, 0, 'value'), ctor_arg(call, 1, 'error')
        ok = isinstance(val, ast.Call) and isinstance(err, ast.Call) and \
            call_name(val) == call_name(err) == 'squeeze' and \
            txt(receiver(val)) == 'self.value' and \
            txt(receiver(err)) == 'self.error' and \
            not val.args and not err.args
        ctx.decide('SLICE-APPLY', meth, f'squeeze: value={txt(val)}, '
                   f'error={txt(err)}', ok, at=meth.where(call))


# ------------------------------------------------------------ EDGE-KIND ---

def check_edge_kind(ctx):
    """Whether the bins of a dimension are edges (N+1 values) or centres (N)
    is decided WHEN SLICING, from the current bins and the current shape:
    the attributes of a dataset may be replaced after construction
    (documented, and done by the tests), so a kind remembered in the
    constructor selects the wrong slice of the new bins."""
    klass = dataset_class(ctx.program)
    n = 0
    edge_names = edge_slice_names(ctx.program)

    def mentions_edge(node):
        return any(isinstance(c, ast.Call) and call_name(c) in edge_names
                   for c in ast.walk(node))
    for meth in klass.methods.values():
        loops = {}
        for node in ast.walk(meth.node):
            if isinstance(node, (ast.For, ast.comprehension)) and isinstance(
                    node.iter, ast.Call) and call_name(node.iter) == 'zip' \
                    and isinstance(node.target, ast.Tuple) and len(
                        node.target.elts) == len(node.iter.args):
                for elt, src in zip(node.target.elts, node.iter.args):
                    if isinstance(elt, ast.Name):
                        loops[elt.id] = src
                    elif isinstance(elt, ast.Tuple) and isinstance(
                            src, ast.Call) and call_name(src) == 'items':
                        # (key, coords) in self.bins.items()
                        for sub in elt.elts:
                            if isinstance(sub, ast.Name):
                                loops[sub.id] = src
        for node in walk_local(meth.node):
            if isinstance(node, ast.IfExp):
                branches = [node.body, node.orelse]
            elif isinstance(node, ast.If) and node.orelse:
                branches = [ast.Module(body=node.body, type_ignores=[]),
                            ast.Module(body=node.orelse, type_ignores=[])]
            else:
                continue
            uses = [mentions_edge(b) for b in branches]
            if sorted(uses) != [False, True]:
                continue
            n += 1
            test = node.test
            construct = f'{meth.name}: edges / centres selected by ' \
                        f'`{txt(test)[:50]}`'
            lens = [c for c in ast.walk(test) if isinstance(c, ast.Call) and
                    call_name(c) == 'len' and c.args and (
                        'bins' in txt(c.args[0]) or (
                            isinstance(c.args[0], ast.Name) and
                            c.args[0].id in loops and
                            'self.bins' in txt(loops[c.args[0].id])))]
            srcs = {name: txt(loops[name]) for name in
                    {x.id for x in ast.walk(test) if isinstance(x, ast.Name)}
                    if name in loops}
            live = {'self.shape', 'self.value.shape', 'self.bins',
                    'self.bins.values()', 'self.bins.items()', 'slices',
                    'index'}
            stale = {k: v for k, v in srcs.items()
                     if v.startswith('self.') and v not in live and
                     not v.startswith('self.bins') and
                     not v.startswith('self.value') and
                     not v.startswith('self.shape')}
            if lens and not stale:
                ctx.holds('EDGE-KIND', meth, construct, at=meth.where(node))
            elif stale:
                ctx.violated('EDGE-KIND', meth, construct,
                             at=meth.where(node),
                             detail={'decided_from': stale,
                                     'why': 'a kind stored on the object is '
                                            'not recomputed when ds.bins '
                                            '(or one of its entries) is '
                                            'replaced: the slice of the new '
                                            'bins is taken with the old '
                                            'kind'})
            else:
                ctx.undecided('EDGE-KIND', meth, construct,
                              at=meth.where(node))
    ctx.floor('EDGE-KIND', n, 1, 'selection between the cell slice and the '
                                 'edge slice')


# ----------------------------------------------------------- INDEX-KEPT ---

def check_index_kept(ctx):
    """`ds[index]` cuts value, error and bins with THE slices it was given.
    Re-binding the index to slices rebuilt from `slice.indices(n)` is not the
    identity: for a negative step and an open stop indices() answers stop =
    -1, which in a slice means "the last element", so ds[::-1] comes back
    empty instead of reversed."""
    klass = dataset_class(ctx.program)
    meth = klass.methods.get('__getitem__')
    if meth is None:
        raise AnalysisError('Dataset.__getitem__ not found')
    idx = [p for p in meth.params if p != 'self'][0]
    n = 0
    for node in walk_local(meth.node):
        if isinstance(node, ast.Assign) and any(
                isinstance(t, ast.Name) and t.id == idx
                for t in node.targets):
            n += 1
            lossy = any(isinstance(c, ast.Call) and call_name(c) == 'indices'
                        for c in ast.walk(node.value))
            ctx.decide('INDEX-KEPT', meth,
                       f'__getitem__: index re-bound: {txt(node)[:60]}',
                       False if lossy else None, at=meth.where(node),
                       detail='slice(*s.indices(n)) differs from s for '
                              'negative steps (stop -1 = last element): '
                              'reversed selections come back empty'
                       if lossy else None)
    if not n:
        ctx.holds('INDEX-KEPT', meth, '__getitem__ uses the index it was '
                  'given', at=meth.where(), nontrivial=False)


# ------------------------------------------------------------- DS-SCALE ---

def check_ds_scale(ctx):
    """"a constant factor scales the error by its magnitude": for a number or
    an array operand the error of a product / quotient is self.error * |k|
    (or / |k|), computed as such.  Sending the scalar case through the
    dataset-dataset quadrature formula with a zero error for the factor
    (sqrt((e*k)**2 + (0*v)**2)) is the same number only while the squares
    neither overflow nor underflow (float32 data: e*k below 1e-23 reads 0,
    above 1.8e19 reads inf) and while 0 * v is 0 (v = inf gives nan)."""
    klass = dataset_class(ctx.program)
    n = 0
    for mname in ('__mul__', '__truediv__'):
        meth = klass.methods.get(mname)
        if meth is None:
            continue
        defs = local_defs(meth)
        parents = enclosing_chain(meth.node)
        other = [p for p in meth.params if p != 'self'][0]
        scalar_linear = False
        unified_quad = None
        for call in dataset_ctor_calls(meth):
            err = ctor_arg(call, 1, 'error')
            if err is None:
                continue
            rerr = resolve_local(err, defs)
            is_ds = _other_is_dataset(meth, call, parents)
            guarded = any(isinstance(t, ast.AST) and 'isinstance' in txt(t)
                          and other in txt(t)
                          for t, _ in V.path_condition(meth.node, call))
            early = any(isinstance(node, ast.If) and 'isinstance' in txt(
                node.test) and other in txt(node.test) and any(
                    isinstance(s_, ast.Return) for s_ in node.body)
                        for node in meth.node.body)
            quad = isinstance(rerr, ast.Call) and call_name(rerr) in (
                'sqrt', 'hypot')
            if not is_ds and not quad and 'error' in txt(rerr):
                scalar_linear = True
            if quad and not guarded and not early:
                unified_quad = (call, rerr)
        n += 1
        if unified_quad is not None and not scalar_linear:
            ctx.violated(
                'DS-SCALE', meth,
                f'{mname}: number / array operands go through '
                f'{txt(unified_quad[1])[:50]}', at=meth.where(unified_quad[0]),
                detail='the squares of the quadrature formula overflow / '
                       'underflow where e * |k| does not, and 0 * inf is '
                       'nan: the error of `ds * k` is no longer e * |k|')
        else:
            ctx.decide('DS-SCALE', meth,
                       f'{mname}: the number / array branch scales the error '
                       f'linearly', True if scalar_linear else None,
                       at=meth.where())
    ctx.floor('DS-SCALE', n, 2, '__mul__ / __truediv__')
