'''Exception-escape analysis (excdom): which exception classes can leave a
function, with a witness chain.  Raise facts come from explicit `raise`,
`assert` (optional) and a primitive table applied in "tainted" modules
(modules that convert text read from a file).  Propagation goes up resolved
call chains through the enclosing handlers of every call site.'''
import ast
import builtins

from .astutil import (dotted, call_name, receiver, txt, calls_in, walk_local,
                      enclosing_chain)
from .loader import FuncInfo, ClassInfo


def _builtin_method_name(name):
    '''A method name that common builtin / library objects also have: a
    receiver of unknown type is then not resolved by unique name.'''
    import io
    import collections
    import pathlib
    import logging
    return any(hasattr(typ, name) for typ in (
        str, bytes, list, dict, set, tuple, int, float, io.TextIOWrapper,
        io.BytesIO, collections.OrderedDict, collections.Counter,
        pathlib.Path, logging.Logger))


def _literal_words(text):
    return len(text.split())


class ExcAnalysis:
    def __init__(self, program, tainted_modules=(), converts=None,
                 with_assert=False, by_unique_name=False):
        self.program = program
        self.tainted = set(tainted_modules)
        self.memo = {}
        self.in_progress = set()
        self.with_assert = with_assert
        self.by_unique_name = by_unique_name
        self.n_raise_sites = 0
        self.n_primitive_sites = 0
        self.n_calls_resolved = 0
        self.n_calls_unresolved = 0
        self.functions = set()
        self._class_bases = {}
        for klass in program.all_classes():
            self._class_bases.setdefault(klass.name, set()).update(
                program.base_names(klass))
        self._callsites = None
        self.special_calls = {}
        self.boundary = {}      # function key -> reason (not descended)
        self.boundary_hits = {}
        self.opaque_hits = {}   # context manager deciding the fate -> class
        self.cur_func = None

    # ---- class matching --------------------------------------------------

    def is_subclass(self, raised, handler):
        if handler in ('BaseException',):
            return True
        if raised == handler:
            return True
        if handler == 'Exception' and raised not in (
                'KeyboardInterrupt', 'SystemExit', 'GeneratorExit'):
            return True
        if handler in self._class_bases.get(raised, ()):
            return True
        hcls = getattr(builtins, handler, None)
        rcls = getattr(builtins, raised, None)
        if isinstance(hcls, type) and isinstance(rcls, type) and \
                issubclass(rcls, hcls):
            return True
        # repo class deriving from a builtin that derives from handler
        for base in self._class_bases.get(raised, ()):
            bcls = getattr(builtins, base, None)
            if isinstance(bcls, type) and isinstance(hcls, type) and \
                    issubclass(bcls, hcls):
                return True
        return False

    def _handler_types(self, htype, depth=0):
        '''Class names of an `except` clause; a name bound at module level
        to a tuple of classes (`except BUILDER_ERRORS:`) is expanded.'''
        if isinstance(htype, ast.Tuple):
            out = []
            for elt in htype.elts:
                out += self._handler_types(elt, depth)
            return out
        if isinstance(htype, ast.Name) and depth < 3:
            for mod in self.program.modules.values():
                val = mod.toplevel.get(htype.id)
                if isinstance(val, ast.Tuple) and htype.id.isupper():
                    return self._handler_types(val, depth + 1)
        if isinstance(htype, ast.BinOp) and isinstance(htype.op, ast.Add):
            return self._handler_types(htype.left, depth) + \
                self._handler_types(htype.right, depth)
        return [txt(htype).split('.')[-1]]

    def caught_by(self, handlers, raised):
        '''Index of the first handler catching the class, or None.'''
        for idx, hdl in enumerate(handlers):
            if hdl.type is None:
                return idx
            names = self._handler_types(hdl.type)
            if any(self.is_subclass(raised, n) for n in names):
                return idx
        return None

    # ---- facts in one function ---------------------------------------------

    def escapes(self, func):
        '''{class name: witness chain (list of str)} leaving `func`.'''
        if func.key in self.memo:
            return self.memo[func.key]
        if func.key in self.in_progress:
            return {}
        if func.key in self.boundary:
            self.boundary_hits[func.key] = self.boundary[func.key]
            return {}
        self.in_progress.add(func.key)
        self.functions.add(func.key)
        self.cur_func = func
        parents = enclosing_chain(func.node)
        facts = []          # (node, class, chain)
        local_types = self._local_types(func)
        for node in walk_local(func.node):
            if isinstance(node, ast.Raise):
                self.n_raise_sites += 1
                for cls_ in self._raised_classes(node, parents):
                    facts.append((node, cls_, [
                        f'{func.key} raises {cls_} ({func.where(node)})']))
            elif isinstance(node, ast.Assert) and self.with_assert:
                facts.append((node, 'AssertionError', [
                    f'{func.key}: {txt(node)[:50]} ({func.where(node)})']))
            elif isinstance(node, ast.Call):
                if func.module.name in self.tainted:
                    for cls_, why in self._primitive(func, node, parents):
                        self.n_primitive_sites += 1
                        facts.append((node, cls_, [
                            f'{func.key}: {why} ({func.where(node)})']))
                for cls_, why in self._primitive_any(func, node, parents):
                    self.n_primitive_sites += 1
                    facts.append((node, cls_, [
                        f'{func.key}: {why} ({func.where(node)})']))
                special = self.special_calls.get(call_name(node)) or []
                if isinstance(special, tuple):
                    special = [special]
                for roots, convert, label in special:
                    for root in roots:
                        for cls_, chain in self.escapes(root).items():
                            cls2 = convert.get(cls_, cls_)
                            facts.append((node, cls2, [
                                f'{func.key} calls {txt(node.func)[:40]} '
                                f'({func.where(node)}) -> {label} '
                                f'{root.key}'] + chain))
                for callee in self._callees(func, node, local_types):
                    sub = self.escapes(callee)
                    for cls_, chain in sub.items():
                        facts.append((node, cls_, [
                            f'{func.key} calls {txt(node.func)[:40]} '
                            f'({func.where(node)})'] + chain))
            elif isinstance(node, ast.Subscript) and \
                    func.module.name in self.tainted and isinstance(
                        node.ctx, ast.Load):
                for cls_, why in list(self._primitive_subscript(
                        func, node, parents)) + list(
                            self._primitive_dict_value(func, node, parents)):
                    self.n_primitive_sites += 1
                    facts.append((node, cls_, [
                        f'{func.key}: {why} ({func.where(node)})']))
        out = {}
        self.cur_func = func
        for node, cls_, chain in facts:
            if not self._absorbed(node, cls_, parents):
                out.setdefault(cls_, chain)
        self.in_progress.discard(func.key)
        self.memo[func.key] = out
        return out

    def _absorbed(self, node, cls_, parents):
        cur = node
        while True:
            par = parents.get(id(cur))
            if par is None:
                return False
            if isinstance(par, ast.Try) and any(cur is s for s in par.body):
                if self.caught_by(par.handlers, cls_) is not None:
                    return True
            if isinstance(par, ast.With) and any(
                    cur is s for s in par.body):
                why = self._opaque_manager(par)
                if why is not None:
                    # a context manager of the package whose exit handler
                    # raises or swallows: what happens to the exception is
                    # decided there, not read by this analysis
                    self.opaque_hits.setdefault(why, cls_)
                    return True
            if isinstance(par, ast.With):
                # contextlib.suppress(X)
                for item in par.items:
                    ctx = item.context_expr
                    if isinstance(ctx, ast.Call) and call_name(ctx) == \
                            'suppress' and any(
                                self.is_subclass(cls_, txt(a).split('.')[-1])
                                for a in ctx.args):
                        return True
            cur = par

    def _opaque_manager(self, withnode):
        for item in withnode.items:
            ctx = item.context_expr
            if not isinstance(ctx, ast.Call):
                continue
            func = self.cur_func
            try:
                res = self.program.resolve_name_expr(func.module, ctx.func,
                                                     func)
            except Exception:       # pylint: disable=broad-except
                res = None
            if res is None and isinstance(ctx.func, ast.Attribute) and \
                    isinstance(ctx.func.value, ast.Name) and \
                    ctx.func.value.id in ('self', 'cls') and \
                    func.cls is not None:
                res = self.program.find_method(func.cls, ctx.func.attr)
            exit_ = None
            if hasattr(res, 'methods'):
                exit_ = self.program.find_method(res, '__exit__')
                if exit_ is not None and any(
                        isinstance(n, ast.Raise) or (
                            isinstance(n, ast.Return) and not (
                                n.value is None or (isinstance(
                                    n.value, ast.Constant) and
                                    n.value.value in (False, None))))
                        for n in walk_local(exit_.node)):
                    return f'{res.name}.__exit__ ({exit_.where()})'
            elif hasattr(res, 'node') and any(
                    'contextmanager' in txt(d)
                    for d in res.node.decorator_list):
                for tri in walk_local(res.node):
                    if isinstance(tri, ast.Try) and tri.handlers and any(
                            isinstance(n, ast.Yield)
                            for st in tri.body for n in ast.walk(st)):
                        return f'{res.name} ({res.where()})'
        return None

    def _raised_classes(self, node, parents):
        exc = node.exc
        if exc is None or (isinstance(exc, ast.Name) and
                           self._handler_var(node, exc.id, parents)):
            # re-raise of what the enclosing handler caught
            hdl = self._enclosing_handler(node, parents)
            trynode = parents.get(id(hdl)) if hdl is not None else None
            if isinstance(trynode, ast.Try) and all(
                    isinstance(s, ast.Assert) for s in trynode.body):
                return []       # logging + re-raise of an internal assert
            if hdl is None or hdl.type is None:
                return ['Exception']
            if isinstance(hdl.type, ast.Tuple):
                return [txt(e).split('.')[-1] for e in hdl.type.elts]
            return [txt(hdl.type).split('.')[-1]]
        if isinstance(exc, ast.Call):
            return [txt(exc.func).split('.')[-1]]
        if isinstance(exc, (ast.Name, ast.Attribute)):
            name = txt(exc).split('.')[-1]
            if name[:1].isupper():
                return [name]
            # a local variable holding an exception instance
            func_node = node
            while parents.get(id(func_node)) is not None:
                func_node = parents[id(func_node)]
            for sub in ast.walk(func_node):
                if isinstance(sub, ast.Assign) and any(
                        txt(t) == name for t in sub.targets) and \
                        isinstance(sub.value, ast.Call):
                    return [txt(sub.value.func).split('.')[-1]]
            return ['Exception']
        return ['Exception']

    @staticmethod
    def _enclosing_handler(node, parents):
        cur = node
        while parents.get(id(cur)) is not None:
            cur = parents[id(cur)]
            if isinstance(cur, ast.ExceptHandler):
                return cur
        return None

    def _handler_var(self, node, name, parents):
        hdl = self._enclosing_handler(node, parents)
        return hdl is not None and hdl.name == name

    # ---- primitive table ---------------------------------------------------

    def _guard_tokens(self, func, node, parents):
        '''Minimum number of whitespace-separated tokens of the line that
        the enclosing conditions guarantee.'''
        best = 0
        cur = node
        while True:
            par = parents.get(id(cur))
            if par is None:
                break
            test = None
            if isinstance(par, ast.If) and any(cur is s for s in par.body):
                test = par.test
            elif isinstance(par, ast.IfExp) and cur is par.body:
                test = par.test
            if test is not None:
                best = max(best, self._tokens_of_cond(test))
            cur = par
        return best

    def _tokens_of_cond(self, test):
        if isinstance(test, ast.BoolOp):
            vals = [self._tokens_of_cond(v) for v in test.values]
            return max(vals) if isinstance(test.op, ast.And) else min(vals)
        if isinstance(test, ast.Compare) and len(test.ops) == 1:
            if isinstance(test.ops[0], ast.In) and isinstance(
                    test.left, ast.Constant) and isinstance(
                        test.left.value, str):
                return _literal_words(test.left.value)
            # len(x.split()) > n
            if isinstance(test.left, ast.Call) and call_name(test.left) == \
                    'len' and isinstance(test.comparators[0], ast.Constant) \
                    and isinstance(test.comparators[0].value, int):
                n = test.comparators[0].value
                if isinstance(test.ops[0], ast.Gt):
                    return n + 1
                if isinstance(test.ops[0], ast.GtE):
                    return n
        if isinstance(test, ast.Call) and call_name(test) == 'startswith' \
                and test.args and isinstance(test.args[0], ast.Constant) \
                and isinstance(test.args[0].value, str):
            return _literal_words(test.args[0].value)
        return 0

    def _caller_guard(self, func):
        '''Tokens guaranteed by the guards around the call sites of `func`
        (minimum over the call sites in its module).'''
        if self._callsites is None:
            self._callsites = {}
            for other in self.program.all_functions():
                if other.module.name not in self.tainted:
                    continue
                par = enclosing_chain(other.node)
                for call in calls_in(other.node):
                    for cand in self._callees(other, call, {}):
                        self._callsites.setdefault(cand.key, []).append(
                            self._guard_tokens(other, call, par))
        sites = self._callsites.get(func.key)
        return min(sites) if sites else 0

    def _split_base(self, expr):
        '''For X.split()[k] returns (X text, k expr) else None.'''
        if isinstance(expr, ast.Subscript) and isinstance(
                expr.value, ast.Call) and call_name(expr.value) == 'split' \
                and not expr.value.args:
            return txt(receiver(expr.value)), expr.slice
        return None

    def _primitive_subscript(self, func, node, parents):
        base = self._split_base(node)
        if base is None:
            return
        _line, idx = base
        tokens = max(self._guard_tokens(func, node, parents),
                     self._caller_guard(func))
        if isinstance(idx, ast.Constant) and isinstance(idx.value, int):
            k = idx.value
            if k in (0, -1):
                return      # non-blank lines only: witness needs a blank one
            need = k + 1 if k >= 0 else -k
            if tokens >= need:
                return
            yield 'IndexError', f'{txt(node)} needs {need} token(s), the ' \
                                f'guards guarantee {tokens}'
        elif isinstance(idx, ast.UnaryOp) and isinstance(
                idx.op, ast.USub) and isinstance(idx.operand, ast.Constant):
            need = idx.operand.value
            if need == 1 or tokens >= need:
                return
            yield 'IndexError', f'{txt(node)} needs {need} token(s), the ' \
                                f'guards guarantee {tokens}'
        elif isinstance(idx, ast.Slice):
            return
        else:
            yield 'IndexError', f'{txt(node)} index not bounded by the ' \
                                f'guards'

    def _primitive_dict_value(self, func, node, parents):
        '''`val[key]` where `val` ranges over ALL the values of a dictionary
        (`for k, val in d.items()`) and `key` is a variable: the dictionaries
        the scanner fills from the lines of the listing (one per kind of
        time, per kind of flag) do not all hold every key - which ones do
        depends on where the listing stops.  KeyError unless guarded by
        `key in val`.'''
        if not (isinstance(node.value, ast.Name) and isinstance(
                node.slice, ast.Name)):
            return
        vals = set()
        for sub in ast.walk(func.node):
            if isinstance(sub, (ast.For, ast.comprehension)) and isinstance(
                    sub.iter, ast.Call) and isinstance(
                        sub.iter.func, ast.Attribute):
                tgt = sub.target
                if sub.iter.func.attr == 'items' and isinstance(
                        tgt, ast.Tuple) and len(tgt.elts) == 2 and \
                        isinstance(tgt.elts[1], ast.Name):
                    vals.add(tgt.elts[1].id)
                elif sub.iter.func.attr == 'values' and isinstance(
                        tgt, ast.Name):
                    vals.add(tgt.id)
        if node.value.id not in vals:
            return
        guard = f'{node.slice.id} in {node.value.id}'
        cur = node
        while cur is not None:
            par = parents.get(id(cur))
            tests = []
            if isinstance(par, (ast.If, ast.IfExp)) and cur is not par.test:
                tests.append(par.test)
            if isinstance(par, ast.comprehension):
                tests.extend(par.ifs)
            if isinstance(par, (ast.DictComp, ast.ListComp, ast.SetComp,
                                ast.GeneratorExp)):
                for gen in par.generators:
                    tests.extend(gen.ifs)
            if any(guard in txt(t) and 'not in' not in txt(t)
                   for t in tests):
                return
            cur = par
        yield 'KeyError', (f'{txt(node)}: {node.value.id} ranges over all '
                           f'the values of a dictionary filled from the '
                           f'listing, not all of them hold '
                           f'{node.slice.id}')

    def _split_fields(self, func):
        '''Names bound to tokens of a split line: targets of an unpacking
        assignment `a, *b, c = <text>.split()` and the loop / comprehension
        variables that range over such a (starred) target.'''
        cache = getattr(self, '_split_cache', None)
        if cache is None:
            cache = self._split_cache = {}
        if func.key in cache:
            return cache[func.key]
        fields = set()
        for node in ast.walk(func.node):
            if isinstance(node, ast.Assign) and isinstance(
                    node.value, ast.Call) and call_name(
                        node.value) == 'split':
                for tgt in node.targets:
                    if isinstance(tgt, (ast.Tuple, ast.List)):
                        for elt in tgt.elts:
                            inner = elt.value if isinstance(
                                elt, ast.Starred) else elt
                            if isinstance(inner, ast.Name):
                                fields.add(inner.id)
        changed = True
        while changed:
            changed = False
            for node in ast.walk(func.node):
                if isinstance(node, (ast.For, ast.comprehension)) and \
                        isinstance(node.iter, ast.Name) and \
                        node.iter.id in fields and isinstance(
                            node.target, ast.Name) and \
                        node.target.id not in fields:
                    fields.add(node.target.id)
                    changed = True
        cache[func.key] = fields
        return fields

    def _primitive(self, func, call, parents):
        cname = call_name(call)
        if cname in ('int', 'float') and isinstance(call.func, ast.Name) \
                and call.args:
            arg = call.args[0]
            if any(isinstance(s, ast.Call) and call_name(s) == 'split'
                   for s in ast.walk(arg)) or (
                       isinstance(arg, ast.Name) and
                       arg.id in self._split_fields(func)):
                # guarded by <same expr>.isdigit() ?
                cur = call
                guarded = False
                while parents.get(id(cur)) is not None:
                    par = parents[id(cur)]
                    test = None
                    if isinstance(par, ast.IfExp) and cur is par.body:
                        test = par.test
                    elif isinstance(par, ast.If) and any(
                            cur is s for s in par.body):
                        test = par.test
                    if test is not None:
                        for sub in ast.walk(test):
                            if isinstance(sub, ast.Call) and call_name(
                                    sub) in ('isdigit', 'isdecimal',
                                             'isnumeric') and txt(
                                                 receiver(sub)) == txt(arg):
                                guarded = True
                    cur = par
                if not guarded:
                    yield 'ValueError', f'{txt(call)[:50]} on a field of ' \
                                        f'the line without isdigit() guard'
        if cname == 'index' and call.args and receiver(call) is not None \
                and isinstance(receiver(call), ast.Call) and call_name(
                    receiver(call)) == 'split':
            yield 'ValueError', f'{txt(call)[:50]}: the token may be ' \
                                f'absent (substring match in the guard)'
        if cname == 'next' and isinstance(call.func, ast.Name) and \
                len(call.args) == 1:
            cur = call
            guarded = False
            # next(reversed(X)) / next(iter(X)): what must not be empty
            inner = call.args[0]
            subject = txt(inner.args[0]) if isinstance(
                inner, ast.Call) and call_name(inner) in (
                    'reversed', 'iter') and inner.args else None
            while parents.get(id(cur)) is not None:
                par = parents[id(cur)]
                if isinstance(par, ast.IfExp) and cur is par.body:
                    guarded = True
                if subject is not None and isinstance(par, ast.BoolOp):
                    pos = [i for i, v in enumerate(par.values)
                           if v is cur or cur in list(ast.walk(v))]
                    earlier = par.values[:pos[0]] if pos else []
                    truthy = {subject, f'bool({subject})',
                              f'len({subject}) > 0', f'len({subject})'}
                    falsy = {f'not {subject}', f'len({subject}) == 0'}
                    if isinstance(par.op, ast.And) and any(
                            txt(v) in truthy for v in earlier):
                        guarded = True
                    if isinstance(par.op, ast.Or) and any(
                            txt(v) in falsy for v in earlier):
                        guarded = True
                if subject is not None:
                    # `if X:` around, or a guard clause `if not X: return`
                    # earlier in an enclosing block
                    if isinstance(par, ast.If) and txt(par.test) == subject \
                            and any(cur is s_ for s_ in par.body):
                        guarded = True
                    for fld in ('body', 'orelse', 'finalbody'):
                        block = getattr(par, fld, None)
                        if isinstance(block, list) and any(
                                cur is s_ for s_ in block):
                            for prev in block[:[
                                    i for i, s_ in enumerate(block)
                                    if s_ is cur][0]]:
                                if isinstance(prev, ast.If) and txt(
                                        prev.test) in (
                                            f'not {subject}',
                                            f'len({subject}) == 0') and \
                                        prev.body and isinstance(
                                            prev.body[-1],
                                            (ast.Return, ast.Raise,
                                             ast.Continue, ast.Break)):
                                    guarded = True
                cur = par
            if not guarded:
                yield 'StopIteration', f'{txt(call)[:50]} without default'

    def _primitive_any(self, func, call, parents):
        '''Primitives that do not depend on the input being a listing line:
        a regular-expression match object dereferenced without a None test
        (`pattern.match(text).group(1)`): no match -> AttributeError.'''
        fun = call.func
        if isinstance(fun, ast.Attribute) and isinstance(
                fun.value, ast.Call) and call_name(fun.value) in (
                    'match', 'search', 'fullmatch') and fun.attr in (
                        'group', 'groups', 'groupdict', 'start', 'end',
                        'span', 'expand'):
            inner = fun.value
            base = receiver(inner)
            # re.match(...) or <compiled pattern>.match(...)
            if base is not None:
                yield 'AttributeError', \
                    f'{txt(call)[:60]}: the match may be None'

    # ---- callees -------------------------------------------------------------

    def _local_types(self, func):
        types = {}
        for node in walk_local(func.node):
            if isinstance(node, ast.Assign) and len(node.targets) == 1 and \
                    isinstance(node.value, ast.Call):
                res = self.program.resolve_name_expr(func.module,
                                                     node.value.func, func)
                if isinstance(res, ClassInfo):
                    types[txt(node.targets[0])] = res
        # self.attr = ClassName(...) in __init__ of the class
        if func.cls is not None:
            for meth in func.cls.methods.values():
                for node in walk_local(meth.node):
                    if isinstance(node, ast.Assign) and len(
                            node.targets) == 1 and isinstance(
                                node.value, ast.Call) and txt(
                                    node.targets[0]).startswith('self.'):
                        res = self.program.resolve_name_expr(
                            meth.module, node.value.func, meth)
                        if isinstance(res, ClassInfo):
                            types.setdefault(txt(node.targets[0]), res)
        return types

    def _callees(self, func, call, local_types):
        cands, how = self.program.resolve_call(func, call, local_types)
        if how == 'by-unique-name' and (
                not self.by_unique_name or _builtin_method_name(
                    call.func.attr)):
            cands = []
        out = list(cands)
        if how == 'typed' and cands:
            # include overrides in subclasses of the receiver type
            recv = txt(receiver(call))
            klass = local_types.get(recv)
            if klass is not None:
                for sub in self.program.subclasses(klass, strict=True):
                    meth = sub.methods.get(call.func.attr)
                    if meth is not None and meth not in out:
                        out.append(meth)
        if how == 'ctor':
            # constructing a class also runs the __init__ chain (super)
            pass
        # function values passed as arguments (callbacks)
        for arg in list(call.args) + [k.value for k in call.keywords]:
            if isinstance(arg, (ast.Name, ast.Attribute)):
                res = self.program.resolve_name_expr(func.module, arg, func)
                if isinstance(res, FuncInfo) and res not in out and \
                        call_name(call) not in ('isinstance', 'getattr',
                                                'hasattr'):
                    out.append(res)
        if out:
            self.n_calls_resolved += 1
        elif not how.startswith('ext'):
            self.n_calls_unresolved += 1
        return out


def pyparsing_converts_indexerror():
    '''Re-reads the installed pyparsing.  An IndexError raised in a parse
    action becomes a ParseException only if (a) the code calling the action
    wraps it AND (b) no other path hands the original IndexError back to the
    caller of parse_string.  pyparsing 3.3 has (a) in _parseNoCache but its
    arity wrapper turns the IndexError of a first call into
    _ParseActionIndexError, which parse_string re-raises as the original
    exception: the conversion then depends on whether the action already ran
    in the process, and cannot be assumed.  Returns (bool, evidence).'''
    import glob
    cands = glob.glob('/venv/lib/python3*/site-packages/pyparsing/core.py')
    for path in cands:
        try:
            with open(path, encoding='utf-8') as fil:
                tree = ast.parse(fil.read())
        except (OSError, SyntaxError):
            continue
        wraps, reraises = None, None
        for node in ast.walk(tree):
            if not isinstance(node, ast.FunctionDef):
                continue
            if node.name == '_parseNoCache':
                for sub in ast.walk(node):
                    if isinstance(sub, ast.ExceptHandler) and \
                            sub.type is not None and 'IndexError' in txt(
                                sub.type) and any(
                                    isinstance(s, ast.Raise) for s in
                                    ast.walk(sub)):
                        wraps = sub.lineno
            if node.name in ('parse_string', 'parseString'):
                for sub in ast.walk(node):
                    if isinstance(sub, ast.ExceptHandler) and \
                            sub.type is not None and 'IndexError' in txt(
                                sub.type) and sub.name and any(
                                    isinstance(s, ast.Raise) and s.exc is not
                                    None and txt(s.exc).startswith(
                                        sub.name + '.')
                                    for s in ast.walk(sub)):
                        reraises = sub.lineno
        if wraps and not reraises:
            return True, f'{path}:{wraps} wraps IndexError of parse actions'
        if reraises:
            return False, f'{path}:{reraises} parse_string re-raises the ' \
                          f'original IndexError of a parse action called ' \
                          f'for the first time (history dependent)'
    return False, 'pyparsing/core.py: no reliable IndexError -> ' \
                  'ParseException conversion around parse actions'
