'''Status domain and the abstract interpreter that computes the decision
table of the scheduler's release decision (rule family REL).

Abstract state on one path:
  TS  set of statuses the *task* may have
  DS  set in which the status of EVERY dependency lies   (universal)
  HS  same for every HARD dependency
  E   list of existential facts (scope, set): some dep of `scope` is in set
  clocks  facts about symbolic clock values
  writes  status writes on the task performed on this path
Statuses of a dependency: M (absent from env) W P D F S.  For the task M
behaves as the default inserted by Env.get_status (read from its source).
'''
import ast
import copy

from .astutil import dotted, call_name, receiver, enum_member, txt
from .loader import AnalysisError

ALL_DEP = frozenset('MWPDFS')
LETTER = {'WAITING': 'W', 'PENDING': 'P', 'DONE': 'D', 'FAILED': 'F',
          'SKIPPED': 'S'}
NAME = {v: k for k, v in LETTER.items()}
NAME['M'] = 'MISSING'


def names(letters):
    order = 'MWPDFS'
    return [NAME[c] for c in order if c in letters]


class Imprecise(Exception):
    '''The construct is outside the fragment the interpreter understands.'''


class State:
    def __init__(self, members):
        self.members = members
        self.TS = frozenset(LETTER[m] for m in members)
        self.DS = ALL_DEP
        self.HS = ALL_DEP
        self.E = []
        self.clock = {}        # var -> symbolic clock value
        self.facts = []        # clock facts: ('isnone', sym, bool) /
        #                        ('cmp', left sym, right sym, allowed rows)
        self.writes = []       # status letters written on the task
        self.other_writes = []  # other writes through env (apply, ...)
        self.imprecise = []    # reasons
        self.trace = []
        self.task_path = []    # (letter, outcome) tests on the task
        self.consts = {}       # local name -> status member / 'None'

    def clone(self):
        new = copy.copy(self)
        new.consts = dict(self.consts)
        new.E = list(self.E)
        new.clock = dict(self.clock)
        new.facts = list(self.facts)
        new.writes = list(self.writes)
        new.other_writes = list(self.other_writes)
        new.imprecise = list(self.imprecise)
        new.trace = list(self.trace)
        new.task_path = list(self.task_path)
        return new

    def feasible(self):
        if not self.TS or not self.DS:
            # empty DS is feasible (no dependencies at all) -- a universal
            # constraint over an empty set; only TS empty is infeasible
            return bool(self.TS)
        return True

    def eff_HS(self):
        return self.HS & self.DS


class Roles:
    '''Binding of variable names to roles in the current function.'''
    def __init__(self, task, deps, hard, env, cls_names=('cls', 'self')):
        self.task, self.deps, self.hard, self.env = task, deps, hard, env
        self.cls_names = cls_names


class DecisionInterp:
    def __init__(self, program, members, default_status, max_depth=3):
        self.program = program
        self.members = members
        self.default = LETTER[default_status]
        self.max_depth = max_depth
        self.rows = []
        self.functions_seen = []
        self.cur_func = None
        self.cur_depth = 0
        self.inlined = []
        # local sets of the master loop known to hold tasks of one status
        self.status_sets = {}

    # -- element predicates (status of ONE dependency) -----------------

    def elt_set(self, expr, var, roles):
        '''Set of dependency statuses for which `expr` (about the loop
        variable `var`) is true.'''
        if isinstance(expr, ast.BoolOp):
            sets = [self.elt_set(v, var, roles) for v in expr.values]
            out = sets[0]
            for nxt in sets[1:]:
                out = out | nxt if isinstance(expr.op, ast.Or) else out & nxt
            return out
        if isinstance(expr, ast.UnaryOp) and isinstance(expr.op, ast.Not):
            return ALL_DEP - self.elt_set(expr.operand, var, roles)
        if isinstance(expr, ast.Compare) and len(expr.ops) == 1:
            left, op, right = expr.left, expr.ops[0], expr.comparators[0]
            if dotted(left) == f'{var}.name' and dotted(right) == roles.env:
                if isinstance(op, ast.NotIn):
                    return frozenset('M')
                if isinstance(op, ast.In):
                    return ALL_DEP - frozenset('M')
            # env.get_status(t) == TaskStatus.X
            if isinstance(left, ast.Call) and call_name(left) == 'get_status' \
                    and len(left.args) == 1 and txt(left.args[0]) == var:
                mem = enum_member(right, 'TaskStatus')
                if mem in LETTER and isinstance(op, (ast.Eq, ast.Is)):
                    return self._is_set(mem)
                if mem in LETTER and isinstance(op, (ast.NotEq, ast.IsNot)):
                    return ALL_DEP - self._is_set(mem)
                # env.get_status(t) in (TaskStatus.DONE, ...) / in FINAL
                mems = self._status_members(right)
                if mems is not None and isinstance(op, (ast.In, ast.NotIn)):
                    inside = frozenset()
                    for one in mems:
                        inside = inside | self._is_set(one)
                    return inside if isinstance(op, ast.In) else \
                        ALL_DEP - inside
        if isinstance(expr, ast.Call):
            cname = call_name(expr)
            recv = receiver(expr)
            if cname and cname.startswith('is_') and recv is not None and \
                    dotted(recv) == roles.env and len(expr.args) == 1 and \
                    txt(expr.args[0]) == var:
                mem = cname[3:].upper()
                if mem in LETTER:
                    return self._is_set(mem)
        raise Imprecise(f'element predicate not understood: {txt(expr)}')

    def _status_members(self, expr, depth=0):
        '''Members of TaskStatus in a literal collection, or in a
        module-level constant bound to one (`FINAL = frozenset((...))`).'''
        if isinstance(expr, ast.Call) and call_name(expr) in (
                'frozenset', 'set', 'tuple', 'list') and len(expr.args) == 1:
            expr = expr.args[0]
        if isinstance(expr, (ast.Tuple, ast.List, ast.Set)):
            mems = [enum_member(e, 'TaskStatus') for e in expr.elts]
            if mems and all(m in LETTER for m in mems):
                return mems
            return None
        if isinstance(expr, (ast.Name, ast.Attribute)) and depth < 2 and \
                self.cur_func is not None:
            name = expr.id if isinstance(expr, ast.Name) else expr.attr
            val = self.cur_func.module.toplevel.get(name)
            if isinstance(val, ast.AST):
                return self._status_members(val, depth + 1)
            # class-level constant (cls.FINAL / self.FINAL)
            klass = getattr(self.cur_func, 'cls', None)
            while klass is not None and hasattr(klass, 'node'):
                for stmt in klass.node.body:
                    if isinstance(stmt, ast.Assign) and any(
                            isinstance(t, ast.Name) and t.id == name
                            for t in stmt.targets):
                        return self._status_members(stmt.value, depth + 1)
                klass = getattr(klass, 'parent_cls', None)
        return None

    def _is_set(self, mem):
        # is_X(t) on a task absent from the environment inserts the default
        # status and compares with it
        out = {LETTER[mem]}
        if LETTER[mem] == self.default:
            out.add('M')
        return frozenset(out)

    # -- conditions -------------------------------------------------------

    def cond(self, expr, state, roles):
        '''Returns (list of states where expr is true, list where false).'''
        if isinstance(expr, ast.BoolOp):
            if isinstance(expr.op, ast.Or):
                trues, pend = [], [state]
                for val in expr.values:
                    nxt = []
                    for st in pend:
                        tru, fal = self.cond(val, st, roles)
                        trues += tru
                        nxt += fal
                    pend = nxt
                return trues, pend
            falses, pend = [], [state]
            for val in expr.values:
                nxt = []
                for st in pend:
                    tru, fal = self.cond(val, st, roles)
                    falses += fal
                    nxt += tru
                pend = nxt
            return pend, falses
        if isinstance(expr, ast.UnaryOp) and isinstance(expr.op, ast.Not):
            tru, fal = self.cond(expr.operand, state, roles)
            return fal, tru
        if isinstance(expr, ast.Call):
            cname = call_name(expr)
            if cname in ('any', 'all') and isinstance(expr.func, ast.Name) \
                    and len(expr.args) == 1:
                return self._quant(cname, expr.args[0], state, roles)
            recv = receiver(expr)
            if cname and cname.startswith('is_') and recv is not None and \
                    dotted(recv) == roles.env and len(expr.args) == 1 and \
                    txt(expr.args[0]) == roles.task:
                mem = cname[3:].upper()
                if mem in LETTER:
                    return self._task_is(state, LETTER[mem])
            # S.isdisjoint(deps) with S a local set of tasks that were given
            # the status X: "not disjoint" means some element of the
            # collection has status X; "disjoint" says nothing (S only holds
            # the tasks of this pass)
            if cname == 'isdisjoint' and recv is not None and \
                    len(expr.args) == 1:
                pair = [(dotted(recv), txt(expr.args[0])),
                        (txt(expr.args[0]), dotted(recv))]
                for sname, coll in pair:
                    if sname in self.status_sets and coll in (roles.deps,
                                                              roles.hard):
                        scope = 'deps' if coll == roles.deps else 'hard'
                        fal = state.clone()
                        fal.E.append((scope,
                                      frozenset(self.status_sets[sname])))
                        return [state.clone()], self._prune([fal])
            res = self._inline_predicate(expr, state, roles)
            if res is not None:
                return res
        if isinstance(expr, ast.Constant) and isinstance(expr.value, bool):
            return ([state], []) if expr.value else ([], [state])
        if isinstance(expr, ast.Compare) and len(expr.ops) == 1:
            left, op, right = expr.left, expr.ops[0], expr.comparators[0]
            # name is None / is not None
            if isinstance(right, ast.Constant) and right.value is None and \
                    isinstance(left, ast.Name) and left.id in state.clock:
                sym = state.clock[left.id]
                tru, fal = state.clone(), state.clone()
                isnone = isinstance(op, (ast.Is, ast.Eq))
                tru.facts.append(('isnone', sym, isnone))
                fal.facts.append(('isnone', sym, not isnone))
                return self._prune_clock([tru]), self._prune_clock([fal])
            # clock comparison
            if isinstance(left, ast.Name) and isinstance(right, ast.Name) \
                    and left.id in state.clock and right.id in state.clock:
                rows_true = _rows(op)
                if rows_true is not None:
                    lsym, rsym = state.clock[left.id], state.clock[right.id]
                    tru, fal = state.clone(), state.clone()
                    tru.facts.append(('cmp', lsym, rsym,
                                      frozenset(rows_true)))
                    fal.facts.append(('cmp', lsym, rsym,
                                      frozenset({'lt', 'eq', 'gt'}) -
                                      frozenset(rows_true)))
                    return [tru], [fal]
            # env.get_status(task) == TaskStatus.X
            if isinstance(left, ast.Call) and call_name(left) == 'get_status' \
                    and len(left.args) == 1 and \
                    txt(left.args[0]) == roles.task:
                mem = enum_member(right, 'TaskStatus')
                if mem in LETTER and isinstance(op, (ast.Eq, ast.Is)):
                    return self._task_is(state, LETTER[mem])
                if mem in LETTER and isinstance(op, (ast.NotEq, ast.IsNot)):
                    tru, fal = self._task_is(state, LETTER[mem])
                    return fal, tru
        raise Imprecise(f'condition not understood: {txt(expr)}')

    def _inline_predicate(self, call, state, roles):
        '''A call of a repo helper used as a condition
        (`cls.deps_settled(deps, hard_deps, env)`): the helper's body is
        interpreted as a predicate with the roles bound through the ACTUAL
        argument positions / keywords (so a swapped argument order is
        seen).  Returns (true states, false states) or None.'''
        if self.cur_func is None or self.cur_depth >= self.max_depth:
            return None
        cands, how = self.program.resolve_call(self.cur_func, call)
        if len(cands) != 1 or how == 'by-unique-name':
            return None
        callee = cands[0]
        params = [p for p in callee.params if p not in ('cls', 'self')]
        bind = {}
        for par, arg in zip(params, call.args):
            if isinstance(arg, ast.Starred):
                return None
            bind[txt(arg)] = par
        for kwd in call.keywords:
            if kwd.arg is None:
                return None
            bind[txt(kwd.value)] = kwd.arg
        if not ({roles.deps, roles.hard, roles.task} & set(bind)):
            return None
        nroles = Roles(bind.get(roles.task), bind.get(roles.deps),
                       bind.get(roles.hard), bind.get(roles.env),
                       roles.cls_names)
        self.inlined.append(callee.key)
        if callee.key not in self.functions_seen:
            self.functions_seen.append(callee.key)
        saved = (self.cur_func, self.cur_depth)
        self.cur_func, self.cur_depth = callee, self.cur_depth + 1
        try:
            trues, falses, pending = self._pred_block(
                callee, callee.node.body, nroles, [state])
        finally:
            self.cur_func, self.cur_depth = saved
        # falling off the end returns None: falsy
        return trues, falses + pending

    def _pred_block(self, func, stmts, roles, states):
        trues, falses = [], []
        for stmt in stmts:
            if not states:
                break
            nxt = []
            for st in states:
                if isinstance(stmt, ast.Expr):
                    nxt.append(st)           # docstring, logging
                elif isinstance(stmt, ast.Pass):
                    nxt.append(st)
                elif isinstance(stmt, ast.Assign) and len(
                        stmt.targets) == 1 and isinstance(
                            stmt.targets[0], ast.Name):
                    tgt = stmt.targets[0].id
                    sym = self._clock_value(func, stmt.value, roles)
                    if sym is not None:
                        st.clock[tgt] = sym
                    else:
                        st.clock.pop(tgt, None)
                        if isinstance(stmt.value, ast.Call):
                            self._effect_call(stmt.value, roles, st)
                    nxt.append(st)
                elif isinstance(stmt, ast.Return):
                    val = stmt.value
                    if val is None or (isinstance(val, ast.Constant) and
                                       val.value is None):
                        falses.append(st)
                    else:
                        tru, fal = self.cond(val, st, roles)
                        trues += tru
                        falses += fal
                elif isinstance(stmt, ast.If):
                    tru, fal = self.cond(stmt.test, st, roles)
                    for sub in tru:
                        sub.trace.append(f'{txt(stmt.test)[:60]} -> true')
                    for sub in fal:
                        sub.trace.append(f'{txt(stmt.test)[:60]} -> false')
                    t1, f1, p1 = self._pred_block(func, stmt.body, roles,
                                                  tru)
                    t2, f2, p2 = self._pred_block(func, stmt.orelse, roles,
                                                  fal)
                    trues += t1 + t2
                    falses += f1 + f2
                    nxt += p1 + p2
                else:
                    raise Imprecise(f'predicate helper {func.qual}: '
                                    f'statement not understood: '
                                    f'{txt(stmt)[:50]}')
            states = nxt
        return trues, falses, states

    @staticmethod
    def _prune_clock(states):
        out = []
        for st in states:
            seen = {}
            ok = True
            for fact in st.facts:
                if fact[0] == 'isnone':
                    if seen.setdefault(fact[1], fact[2]) != fact[2]:
                        ok = False
            if ok:
                out.append(st)
        return out

    @staticmethod
    def _task_is(state, letter):
        tru, fal = state.clone(), state.clone()
        tru.TS = state.TS & {letter}
        fal.TS = state.TS - {letter}
        tru.task_path.append((letter, True))
        fal.task_path.append((letter, False))
        return ([tru] if tru.TS else []), ([fal] if fal.TS else [])

    def _quant(self, kind, gen, state, roles):
        if not isinstance(gen, (ast.GeneratorExp, ast.ListComp)) or \
                len(gen.generators) != 1 or gen.generators[0].ifs:
            raise Imprecise(f'quantifier shape not understood: {txt(gen)}')
        comp = gen.generators[0]
        if not isinstance(comp.target, ast.Name) or \
                not isinstance(comp.iter, ast.Name):
            raise Imprecise(f'quantifier range not understood: {txt(gen)}')
        rng = comp.iter.id
        if rng == roles.deps:
            scope = 'deps'
        elif rng == roles.hard:
            scope = 'hard'
        else:
            raise Imprecise(f'quantifier over unknown collection {rng}')
        eset = self.elt_set(gen.elt, comp.target.id, roles)
        tru, fal = state.clone(), state.clone()
        if kind == 'any':
            tru.E.append((scope, eset))
            self._restrict(fal, scope, ALL_DEP - eset)
        else:
            self._restrict(tru, scope, eset)
            fal.E.append((scope, ALL_DEP - eset))
        return self._prune([tru]), self._prune([fal])

    @staticmethod
    def _restrict(state, scope, allowed):
        if scope == 'deps':
            state.DS = state.DS & allowed
        else:
            state.HS = state.HS & allowed

    @staticmethod
    def _prune(states):
        '''An existential fact whose set became disjoint from the universal
        constraint makes the path infeasible.'''
        out = []
        for st in states:
            ok = True
            for scope, eset in st.E:
                univ = st.DS if scope == 'deps' else st.eff_HS()
                if not eset & univ:
                    ok = False
            if ok:
                out.append(st)
        return out

    # -- statements ---------------------------------------------------------

    def run_function(self, func, roles, state, depth=0):
        '''Interprets the body; appends rows to self.rows.'''
        self.functions_seen.append(func.key)
        self._block(func, func.node.body, roles, [state], depth)

    def _block(self, func, stmts, roles, states, depth):
        '''Returns the states that fall off the end of the block.'''
        for stmt in stmts:
            if not states:
                return []
            nxt = []
            for st in states:
                nxt += self._stmt(func, stmt, roles, st, depth)
            states = nxt
        return states

    def _row(self, func, node, value, state):
        self.rows.append({'returns': value, 'state': state,
                          'at': func.where(node), 'func': func.key,
                          'node': node})

    def _stmt(self, func, stmt, roles, state, depth):
        self.cur_func = func
        self.cur_depth = depth
        if isinstance(stmt, ast.Expr):
            val = stmt.value
            if isinstance(val, ast.Constant):
                return [state]          # docstring
            if isinstance(val, ast.Call):
                self._effect_call(val, roles, state)
                return [state]
            state.imprecise.append(f'statement {txt(stmt)}')
            return [state]
        if isinstance(stmt, ast.If):
            try:
                trues, falses = self.cond(stmt.test, state, roles)
            except Imprecise as err:
                tru, fal = state.clone(), state.clone()
                tru.imprecise.append(str(err))
                fal.imprecise.append(str(err))
                trues, falses = [tru], [fal]
            for st in trues:
                st.trace.append(f'{txt(stmt.test)[:60]} -> true')
            for st in falses:
                st.trace.append(f'{txt(stmt.test)[:60]} -> false')
            out = self._block(func, stmt.body, roles, trues, depth)
            out += self._block(func, stmt.orelse, roles, falses, depth)
            return out
        if isinstance(stmt, ast.Assert):
            try:
                trues, falses = self.cond(stmt.test, state, roles)
            except Imprecise as err:
                state.imprecise.append(str(err))
                return [state]
            for st in falses:
                self._row(func, stmt, 'raise AssertionError', st)
            return trues
        if isinstance(stmt, ast.Return):
            self._return(func, stmt, roles, state, depth)
            return []
        if isinstance(stmt, ast.Raise):
            self._row(func, stmt, 'raise ' + txt(stmt.exc)[:40], state)
            return []
        if isinstance(stmt, ast.Assign) and len(stmt.targets) == 1 and \
                isinstance(stmt.targets[0], ast.Name):
            tgt = stmt.targets[0].id
            state.consts.pop(tgt, None)
            mem = enum_member(stmt.value, 'TaskStatus')
            if mem in LETTER or (isinstance(stmt.value, ast.Constant) and
                                 stmt.value.value is None):
                # `new_state = TaskStatus.X` on this path (single exit
                # form: the write and the return name the local)
                state.consts[tgt] = mem if mem in LETTER else 'None'
                state.clock.pop(tgt, None)
                return [state]
            sym = self._clock_value(func, stmt.value, roles)
            if sym is not None:
                state.clock[tgt] = sym
                return [state]
            if isinstance(stmt.value, ast.Call):
                self._effect_call(stmt.value, roles, state)
            # assignment of something the decision does not depend on
            state.clock.pop(tgt, None)
            if tgt in (roles.task, roles.deps, roles.hard, roles.env):
                state.imprecise.append(f'role variable rebound: {txt(stmt)}')
            return [state]
        if isinstance(stmt, ast.Pass):
            return [state]
        state.imprecise.append(f'statement kind {type(stmt).__name__}: '
                               f'{txt(stmt)[:60]}')
        return [state]

    def _effect_call(self, call, roles, state):
        cname = call_name(call)
        recv = receiver(call)
        rtxt = dotted(recv) if recv is not None else None
        if rtxt == roles.env and cname:
            if cname.startswith('set_') and cname[4:].upper() in LETTER and \
                    len(call.args) == 1:
                if txt(call.args[0]) == roles.task:
                    letter = LETTER[cname[4:].upper()]
                    state.TS = frozenset({letter})
                    state.writes.append(letter)
                else:
                    state.other_writes.append(txt(call))
                return
            if cname == 'set_status' and len(call.args) == 2:
                mem = enum_member(call.args[1], 'TaskStatus')
                if mem is None and isinstance(call.args[1], ast.Name):
                    mem = state.consts.get(call.args[1].id)
                if txt(call.args[0]) == roles.task and mem in LETTER:
                    state.TS = frozenset({LETTER[mem]})
                    state.writes.append(LETTER[mem])
                else:
                    state.other_writes.append(txt(call))
                    if txt(call.args[0]) == roles.task:
                        state.imprecise.append(
                            f'status write of unknown value {txt(call)}')
                return
            if cname in ('apply', 'update', 'set_start_end_clock', 'pop',
                         'setdefault', 'clear', '__setitem__',
                         '__delitem__'):
                state.other_writes.append(txt(call))
                return
            if cname.startswith(('is_', 'get_')):
                return
        # logging and other calls without effect on the decision
        if rtxt is not None and rtxt.split('.')[0] in ('LOGGER', 'logging'):
            return
        if cname in ('debug', 'info', 'warning', 'error', 'note'):
            return
        # a call that receives the environment may write through it
        if any(txt(a) == roles.env for a in call.args):
            state.imprecise.append(f'unknown call with env: {txt(call)[:60]}')

    def _clock_value(self, func, expr, roles):
        '''Symbolic value for clock reads, else None.'''
        if not isinstance(expr, ast.Call):
            return None
        cname = call_name(expr)
        recv = receiver(expr)
        rtxt = dotted(recv) if recv is not None else None
        if rtxt == roles.env and cname in ('get_start_clock',
                                           'get_end_clock') and \
                len(expr.args) == 1 and txt(expr.args[0]) == roles.task:
            return ('task', cname[4:-6])     # ('task', 'start'|'end')
        if rtxt in roles.cls_names and cname:
            cands, _ = self.program.resolve_call(func, expr)
            if len(cands) == 1:
                summ = clock_aggregate_summary(cands[0])
                if summ is not None:
                    # which collection is aggregated?
                    coll = None
                    params = [p for p in cands[0].params
                              if p not in ('cls', 'self')]
                    for par, arg in zip(params, expr.args):
                        if par == summ['collection']:
                            coll = txt(arg)
                    scope = 'deps' if coll == roles.deps else \
                        'hard' if coll == roles.hard else None
                    if scope is not None:
                        return ('agg', summ['kind'], summ['clock'], scope,
                                summ.get('absent', 'unknown'))
        return None

    def _return(self, func, stmt, roles, state, depth):
        val = stmt.value
        if val is None or (isinstance(val, ast.Constant) and
                           val.value is None):
            self._row(func, stmt, 'None', state)
            return
        mem = enum_member(val, 'TaskStatus')
        if mem is None and isinstance(val, ast.Name):
            mem = state.consts.get(val.id)
            if mem == 'None':
                self._row(func, stmt, 'None', state)
                return
        if mem in LETTER:
            self._row(func, stmt, mem, state)
            return
        if isinstance(val, ast.Call) and depth < self.max_depth:
            cands, _ = self.program.resolve_call(func, val)
            if len(cands) == 1 and not val.keywords:
                callee = cands[0]
                params = [p for p in callee.params
                          if p not in ('cls', 'self')]
                if len(params) == len(val.args):
                    bind = dict(zip((txt(a) for a in val.args), params))
                    try:
                        nroles = Roles(bind[roles.task], bind[roles.deps],
                                       bind[roles.hard], bind[roles.env])
                    except KeyError:
                        nroles = None
                    if nroles is not None:
                        nstate = state.clone()
                        nstate.clock = {}
                        self.run_function(callee, nroles, nstate, depth + 1)
                        return
        state.imprecise.append(f'return value not understood: {txt(val)}')
        self._row(func, stmt, '?', state)


def _rows(op):
    '''Orderings of (left vs right) for which `left op right` is true.'''
    if isinstance(op, ast.LtE):
        return {'lt', 'eq'}
    if isinstance(op, ast.Lt):
        return {'lt'}
    if isinstance(op, ast.GtE):
        return {'gt', 'eq'}
    if isinstance(op, ast.Gt):
        return {'gt'}
    if isinstance(op, ast.Eq):
        return {'eq'}
    if isinstance(op, ast.NotEq):
        return {'lt', 'gt'}
    return None


def clock_aggregate_summary(func):
    '''Summary of a helper like last_end_time(tasks, env): which clock it
    reads for each element of which collection parameter and how it
    aggregates: {'kind': 'max'|'min'|'unknown', 'clock': 'end'|'start',
    'collection': param}.  None if the function is not of that shape.'''
    clock, coll = None, None
    for node in ast.walk(func.node):
        if isinstance(node, ast.For) and isinstance(node.iter, ast.Name) and \
                node.iter.id in func.params:
            for sub in ast.walk(node):
                if isinstance(sub, ast.Call) and call_name(sub) in (
                        'get_end_clock', 'get_start_clock'):
                    clock = call_name(sub)[4:-6]
                    coll = node.iter.id
        if isinstance(node, (ast.GeneratorExp, ast.ListComp)):
            gen = node.generators[0]
            if isinstance(gen.iter, ast.Name) and gen.iter.id in func.params:
                for sub in ast.walk(node.elt):
                    if isinstance(sub, ast.Call) and call_name(sub) in (
                            'get_end_clock', 'get_start_clock'):
                        clock = call_name(sub)[4:-6]
                        coll = gen.iter.id
    if clock is None:
        return None
    kinds = set()
    for node in ast.walk(func.node):
        if isinstance(node, ast.Return) and node.value is not None:
            val = node.value
            if isinstance(val, ast.Constant) and val.value is None:
                continue
            if isinstance(val, ast.Call) and call_name(val) in ('max',
                                                                'amax'):
                kinds.add('max')
            elif isinstance(val, ast.Call) and call_name(val) in ('min',
                                                                  'amin'):
                kinds.add('min')
            elif isinstance(val, ast.Subscript) and isinstance(
                    val.value, ast.Call) and call_name(val.value) == \
                    'sorted' and txt(val.slice) == '-1':
                kinds.add('max')
            else:
                kinds.add('unknown')
    kind = kinds.pop() if len(kinds) == 1 else 'unknown'
    # what happens when ONE element has no clock?
    #   'all'      the helper answers None at once (the clocks of the other
    #              elements are not looked at)
    #   'skip-nonrun'  elements that never ran (skipped / failed status test)
    #              are passed over, any other clockless element answers None
    #   'skip-any' clockless elements are passed over
    absent = 'unknown'
    for node in ast.walk(func.node):
        if isinstance(node, ast.For) and isinstance(node.iter, ast.Name) and \
                node.iter.id == coll:
            for test in ast.walk(node):
                if not (isinstance(test, ast.If) and isinstance(
                        test.test, ast.Compare) and isinstance(
                            test.test.ops[0], ast.Is) and isinstance(
                                test.test.comparators[0], ast.Constant) and
                        test.test.comparators[0].value is None):
                    continue
                returns_none = any(
                    isinstance(s, ast.Return) and (s.value is None or (
                        isinstance(s.value, ast.Constant) and
                        s.value.value is None)) for s in test.body)
                passes = [s for s in ast.walk(test) if isinstance(
                    s, ast.Continue)]
                guarded_pass = any(
                    isinstance(i, ast.If) and any(
                        isinstance(c, ast.Continue) for c in i.body) and any(
                            w in ast.unparse(i.test)
                            for w in ('is_skipped', 'is_failed', 'SKIPPED',
                                      'FAILED'))
                    for i in test.body if isinstance(i, ast.If))
                if returns_none and guarded_pass:
                    absent = 'skip-nonrun'
                elif returns_none:
                    absent = 'all'
                elif passes:
                    absent = 'skip-any'
        if isinstance(node, (ast.GeneratorExp, ast.ListComp)) and any(
                'is not None' in ast.unparse(i)
                for gen in node.generators for i in gen.ifs):
            absent = 'skip-any'
    return {'kind': kind, 'clock': clock, 'collection': coll,
            'absent': absent}


def read_members(program):
    '''Members of TaskStatus, from the IntEnum literal in cosette/task.py.'''
    mod = program.module('valjean.cosette.task')
    val = mod.toplevel.get('TaskStatus')
    if isinstance(val, ast.Call) and len(val.args) >= 2 and \
            isinstance(val.args[1], ast.Constant) and \
            isinstance(val.args[1].value, str):
        mems = val.args[1].value.replace(',', ' ').split()
        if set(mems) == set(LETTER):
            return mems
        raise AnalysisError(f'TaskStatus members changed: {mems}; the status '
                            f'domain was written for {sorted(LETTER)}')
    raise AnalysisError('TaskStatus IntEnum literal not found in '
                        'valjean.cosette.task')


def read_default_status(program):
    '''Default status inserted by Env.get_status for an absent task.'''
    func = program.func('valjean.cosette.env:Env.get_status')
    for node in ast.walk(func.node):
        if isinstance(node, ast.Call) and call_name(node) in ('setdefault',
                                                              'get') \
                and len(node.args) == 2 and isinstance(node.args[1],
                                                       ast.Dict):
            for key, val in zip(node.args[1].keys, node.args[1].values):
                if isinstance(key, ast.Constant) and key.value == 'status':
                    mem = enum_member(val, 'TaskStatus')
                    if mem in LETTER:
                        return mem
    raise AnalysisError('default status of Env.get_status not found')
