'''Index-class interpretation of DepGraph.remove_node (rule SWAP-SEM).

The renumbering performed by remove_node only distinguishes THREE kinds of
positions: the position of the removed node (`i`), the last position
(`last`), and every other one.  The function is therefore interpreted over
the abstract universe {I, L, O} (and {L, O} when i == last): `self._edges`
is a mapping from position classes to sets of position classes, and the
statements of the function - row exchanges, deletions, rebuilds through the
renumbering closure or a filter, in-place edits of the sets - are executed
on that abstract graph, for EVERY combination of abstract rows.  The
specification is the mathematical removal: the row of I disappears, the row
of L is found at I, and in every remaining row I is dropped, L becomes I, O
stays.

Nothing of valjean is imported or run: the interpreter walks the AST and
knows only the constructs listed below; anything else raises Unknown and the
rule is undecided.
'''
import ast
from itertools import product

from .astutil import txt, call_name, dotted


class Unknown(Exception):
    pass


class _Return(Exception):
    pass


class _Func:
    def __init__(self, node, interp):
        self.node = node
        self.interp = interp

    def __call__(self, *args):
        env = dict(self.interp.env)
        for par, arg in zip(self.node.args.args, args):
            env[par.arg] = arg
        saved = self.interp.env
        self.interp.env = env
        self.interp.depth += 1
        try:
            self.interp.block(self.node.body)
        except _ReturnValue as ret:
            return ret.value
        finally:
            self.interp.env = saved
            self.interp.depth -= 1
        return None


class _ReturnValue(Exception):
    def __init__(self, value):
        super().__init__()
        self.value = value


class Interp:
    '''edges: dict class -> set of classes (the abstract self._edges).'''

    def __init__(self, edges, i_cls, last_cls):
        self.edges = edges
        self.env = {}
        self.i_cls, self.last_cls = i_cls, last_cls
        self.nodes_deleted = []
        self.depth = 0

    # ---- statements --------------------------------------------------------

    def block(self, stmts):
        for stmt in stmts:
            self.stmt(stmt)

    def stmt(self, stmt):
        if isinstance(stmt, ast.Expr):
            if isinstance(stmt.value, ast.Constant):
                return
            if isinstance(stmt.value, ast.Call):
                recv = stmt.value.func.value if isinstance(
                    stmt.value.func, ast.Attribute) else None
                if recv is not None and (dotted(recv) or '').split('.')[0] \
                        in ('LOGGER', 'logging'):
                    return
                self.ev(stmt.value)
                return
            raise Unknown(f'statement {txt(stmt)[:40]}')
        if isinstance(stmt, ast.FunctionDef):
            self.env[stmt.name] = _Func(stmt, self)
            return
        if isinstance(stmt, ast.Return):
            if self.depth > 0:
                raise _ReturnValue(self.ev(stmt.value)
                                   if stmt.value is not None else None)
            raise _Return()
        if isinstance(stmt, ast.Assign) and len(stmt.targets) == 1:
            self.assign(stmt.targets[0], self.ev(stmt.value))
            return
        if isinstance(stmt, ast.Delete):
            for tgt in stmt.targets:
                if isinstance(tgt, ast.Subscript) and dotted(
                        tgt.value) == 'self._edges':
                    key = self.ev(tgt.slice)
                    if key not in self.edges:
                        raise Unknown('KeyError in del self._edges[...]')
                    del self.edges[key]
                elif isinstance(tgt, ast.Subscript) and dotted(
                        tgt.value) == 'self._nodes':
                    self.nodes_deleted.append(self.ev(tgt.slice))
                else:
                    raise Unknown(f'del {txt(tgt)}')
            return
        if isinstance(stmt, ast.If):
            branch = stmt.body if self.truth(self.ev(stmt.test)) else \
                stmt.orelse
            self.block(branch)
            return
        if isinstance(stmt, ast.For):
            items = list(self.iterate(self.ev(stmt.iter)))
            for item in items:
                self.assign(stmt.target, item)
                self.block(stmt.body)
            return
        if isinstance(stmt, ast.Pass):
            return
        raise Unknown(f'statement kind {type(stmt).__name__}')

    def assign(self, tgt, val):
        if isinstance(tgt, ast.Name):
            self.env[tgt.id] = val
        elif isinstance(tgt, (ast.Tuple, ast.List)):
            vals = list(val)
            if len(vals) != len(tgt.elts):
                raise Unknown('unpacking')
            for elt, sub in zip(tgt.elts, vals):
                self.assign(elt, sub)
        elif isinstance(tgt, ast.Subscript) and dotted(
                tgt.value) == 'self._edges':
            self.edges[self.ev(tgt.slice)] = val
        else:
            raise Unknown(f'assignment target {txt(tgt)}')

    # ---- expressions -------------------------------------------------------

    @staticmethod
    def truth(val):
        return bool(val)

    @staticmethod
    def iterate(val):
        if isinstance(val, (list, tuple, set, frozenset, dict)) or type(
                val).__name__ in ('dict_items', 'dict_values', 'dict_keys',
                                  'map', 'generator'):
            return list(val)
        raise Unknown('iteration')

    def ev(self, expr):
        if isinstance(expr, ast.Constant):
            return expr.value
        if isinstance(expr, ast.Name):
            if expr.id in self.env:
                return self.env[expr.id]
            raise Unknown(f'name {expr.id}')
        if isinstance(expr, ast.Attribute):
            if dotted(expr) == 'self._edges':
                return self.edges
            raise Unknown(f'attribute {txt(expr)}')
        if isinstance(expr, ast.Subscript):
            base = self.ev(expr.value)
            key = self.ev(expr.slice)
            try:
                return base[key]
            except (KeyError, TypeError, IndexError) as err:
                raise Unknown(f'{txt(expr)} raises '
                              f'{type(err).__name__}') from err
        if isinstance(expr, ast.Compare) and len(expr.ops) == 1:
            left, right = self.ev(expr.left), self.ev(expr.comparators[0])
            oper = expr.ops[0]
            if isinstance(oper, ast.Eq):
                return left == right
            if isinstance(oper, ast.NotEq):
                return left != right
            if isinstance(oper, ast.Is):
                return left is right or (left is None and right is None)
            if isinstance(oper, ast.IsNot):
                return not (left is right or (left is None and
                                              right is None))
            if isinstance(oper, ast.In):
                return left in right
            if isinstance(oper, ast.NotIn):
                return left not in right
            raise Unknown('ordering comparison of positions')
        if isinstance(expr, ast.BoolOp):
            val = None
            for sub in expr.values:
                val = self.ev(sub)
                if isinstance(expr.op, ast.And) and not val:
                    return val
                if isinstance(expr.op, ast.Or) and val:
                    return val
            return val
        if isinstance(expr, ast.UnaryOp) and isinstance(expr.op, ast.Not):
            return not self.ev(expr.operand)
        if isinstance(expr, ast.IfExp):
            return self.ev(expr.body if self.ev(expr.test) else expr.orelse)
        if isinstance(expr, (ast.GeneratorExp, ast.ListComp, ast.SetComp)):
            out = []
            gen = expr.generators[0]
            if len(expr.generators) != 1:
                raise Unknown('nested comprehension')
            saved = dict(self.env)
            for item in self.iterate(self.ev(gen.iter)):
                self.assign(gen.target, item)
                if all(self.ev(cond) for cond in gen.ifs):
                    out.append(self.ev(expr.elt))
            self.env = saved
            return set(out) if isinstance(expr, ast.SetComp) else out
        if isinstance(expr, ast.Set):
            return {self.ev(e) for e in expr.elts}
        if isinstance(expr, ast.Tuple):
            return tuple(self.ev(e) for e in expr.elts)
        if isinstance(expr, ast.Call):
            return self.call(expr)
        raise Unknown(f'expression {type(expr).__name__}')

    def call(self, expr):
        fun = expr.func
        args = [self.ev(a) for a in expr.args]
        if isinstance(fun, ast.Name):
            if fun.id == 'set':
                return set(self.iterate(args[0])) if args else set()
            if fun.id in ('list', 'tuple', 'sorted'):
                return list(self.iterate(args[0])) if args else []
            if fun.id == 'map' and len(args) == 2:
                return [args[0](item) for item in self.iterate(args[1])]
            if fun.id == 'len':
                return len(args[0])
            if fun.id in self.env and callable(self.env[fun.id]):
                return self.env[fun.id](*args)
            raise Unknown(f'call {fun.id}')
        if isinstance(fun, ast.Attribute):
            # self._nodes.swap(i, last) and friends do not touch the edges
            if dotted(fun.value) == 'self._nodes':
                if fun.attr in ('swap',):
                    return None
                raise Unknown(f'self._nodes.{fun.attr}')
            base = self.ev(fun.value)
            name = fun.attr
            if isinstance(base, set):
                if name in ('discard', 'add', 'remove', 'update',
                            'difference_update', 'clear', 'copy',
                            'difference', 'union', 'intersection'):
                    try:
                        return getattr(base, name)(*args)
                    except KeyError as err:
                        raise Unknown('KeyError in set.remove') from err
            if isinstance(base, dict):
                if name in ('items', 'values', 'keys'):
                    return list(getattr(base, name)())
                if name == 'pop':
                    if args and args[0] not in base and len(args) < 2:
                        raise Unknown('KeyError in pop')
                    return base.pop(*args)
                if name in ('get', 'copy'):
                    return getattr(base, name)(*args)
            raise Unknown(f'method {name} on {type(base).__name__}')
        raise Unknown('call form')


def remove_node_table(meth_node):
    '''Runs the statements of remove_node that follow the computation of `i`
    and `last` on every abstract graph.  Returns (wrong, unknown, n): wrong =
    list of (case, initial rows, final rows, expected rows).'''
    body = list(meth_node.body)
    # the two position variables, whatever their names: the one looked up in
    # self._nodes (get_index / index) and `len(self._nodes) - 1`
    i_name = last_name = None
    for stmt in body:
        if isinstance(stmt, ast.Assign) and len(stmt.targets) == 1 and \
                isinstance(stmt.targets[0], ast.Name):
            val = stmt.value
            if isinstance(val, ast.Call) and call_name(val) in (
                    'get_index', 'index') and 'self._nodes' in txt(val):
                i_name = i_name or stmt.targets[0].id
            if isinstance(val, ast.BinOp) and isinstance(
                    val.op, ast.Sub) and 'len(self._nodes)' in txt(
                        val.left) and txt(val.right) == '1':
                last_name = last_name or stmt.targets[0].id
    if i_name is None or last_name is None:
        return [], [('-', {}, 'position variables of remove_node not '
                              'recognised')], 0
    # skip the docstring and the lookup of i / the early return / last
    stmts = []
    for stmt in body:
        if isinstance(stmt, ast.Expr) and isinstance(stmt.value,
                                                     ast.Constant):
            continue
        if isinstance(stmt, ast.Assign) and len(stmt.targets) == 1 and \
                isinstance(stmt.targets[0], ast.Name) and \
                stmt.targets[0].id in (i_name, last_name):
            continue
        if isinstance(stmt, ast.If) and 'is None' in txt(stmt.test) and \
                any(isinstance(s, ast.Return) for s in stmt.body):
            continue
        stmts.append(stmt)
    wrong, unknown, count = [], [], 0
    for case in ('i != last', 'i == last'):
        classes = ['I', 'L', 'O'] if case == 'i != last' else ['L', 'O']
        i_cls = 'I' if case == 'i != last' else 'L'
        subsets = []
        for mask in range(2 ** len(classes)):
            subsets.append({c for k, c in enumerate(classes)
                            if mask >> k & 1})
        for rows in product(subsets, repeat=len(classes)):
            count += 1
            edges = {c: set(r) for c, r in zip(classes, rows)}
            init = {c: sorted(r) for c, r in edges.items()}
            # specification
            def ren(row):
                out = set()
                for elt in row:
                    if elt == i_cls:
                        continue        # edge into the removed node
                    out.add(i_cls if elt == 'L' else elt)
                return out
            want = {}
            for cls_, row in edges.items():
                if cls_ == i_cls and case == 'i != last':
                    continue            # row of the removed node
                if case == 'i == last' and cls_ == 'L':
                    continue
                target = i_cls if cls_ == 'L' else cls_
                want[target] = ren(row)
            interp = Interp(edges, i_cls, 'L')
            interp.env = {i_name: i_cls, last_name: 'L', 'node': 'node'}
            try:
                try:
                    interp.block(stmts)
                except _Return:
                    pass
            except Unknown as err:
                unknown.append((case, init, str(err)))
                continue
            except _ReturnValue:
                pass
            got = {c: set(r) for c, r in interp.edges.items()}
            if got != want:
                wrong.append((case, init,
                              {c: sorted(r) for c, r in got.items()},
                              {c: sorted(r) for c, r in want.items()}))
    return wrong, unknown, count
