'''Finite-domain evaluation of small pure expressions (the `enumdom` of
DESIGN.md, generalised).

Used to compute DECISION TABLES: a pure method such as a `__bool__` built
from membership tests, len(), min()/max() over the keys of a classification
and comparisons of enum members is evaluated over EVERY element of a small
abstract state space (e.g. which keys of the classification are present),
by a tiny interpreter of the expression sub-language below.  Nothing of
valjean is imported or executed: the interpreter walks the AST and knows
only the constructs listed here; anything else raises Unknown and the cell
is undecided.

Values: Python bool / int / str / None / tuple / list / dict / set, and enum
members represented as Member(enum, name, value) ordered by value.
'''
import ast


class Unknown(Exception):
    pass


class Member:
    __slots__ = ('enum', 'name', 'value')

    def __init__(self, enum, name, value):
        self.enum, self.name, self.value = enum, name, value

    def _key(self):
        # IntEnum semantics: members ARE integers, so members of different
        # enums with the same value compare (and hash) equal, and a member
        # equals its plain integer value
        return self.value

    def __eq__(self, other):
        if isinstance(other, Member):
            return self.value == other.value
        if isinstance(other, (int, float)) and not isinstance(other, bool):
            return self.value == other
        return False

    def __ne__(self, other):
        return not self == other

    def __hash__(self):
        return hash(self._key())

    def __lt__(self, other):
        return self.value < _num(other)

    def __le__(self, other):
        return self.value <= _num(other)

    def __gt__(self, other):
        return self.value > _num(other)

    def __ge__(self, other):
        return self.value >= _num(other)

    def __repr__(self):
        return f'{self.enum}.{self.name}'


def _num(other):
    if isinstance(other, Member):
        return other.value
    if isinstance(other, (int, float)):
        return other
    raise Unknown('comparison of an enum member with a non-number')


SAFE_BUILTINS = {
    'len': len, 'max': max, 'min': min, 'all': all, 'any': any, 'sum': sum,
    'bool': bool, 'set': set, 'sorted': sorted, 'list': list, 'tuple': tuple,
    'frozenset': frozenset, 'abs': abs, 'int': int, 'next': next,
    'iter': iter, 'dict': dict,
}
SAFE_METHODS = {
    dict: {'items', 'keys', 'values', 'get'},
    list: {'count', 'index'},
    tuple: {'count', 'index'},
    set: {'issubset', 'issuperset', 'intersection', 'union', 'difference',
          'isdisjoint'},
    frozenset: {'issubset', 'issuperset', 'intersection', 'union',
                'difference', 'isdisjoint'},
}


class MiniEval:
    '''env: name -> value; enums: enum name -> {member name: Member};
    methods: callable(name) -> FuncInfo-like with .node for `self.m()`
    calls; self_attrs: attribute name -> value for `self.<attr>`.'''

    def __init__(self, enums, self_attrs, methods=None, depth=0,
                 globals_fn=None):
        self.enums = enums
        self.self_attrs = self_attrs
        self.methods = methods or (lambda name: None)
        self.depth = depth
        # module-level constants: name -> ast expression (or None)
        self.globals_fn = globals_fn or (lambda name: None)

    # ---- functions ---------------------------------------------------------

    def call_function(self, funcnode, args=()):
        '''Evaluates a method made of local assignments, `if` chains and
        `return` statements.'''
        if self.depth > 4:
            raise Unknown('call depth')
        env = {}
        params = [a.arg for a in funcnode.args.args]
        for name, val in zip(params[1:], args):
            env[name] = val
        res = self._block(funcnode.body, env)
        return None if res is _FALL else res

    def _block(self, stmts, env):
        for stmt in stmts:
            if isinstance(stmt, ast.Expr):
                if isinstance(stmt.value, ast.Constant):
                    continue
                raise Unknown('expression statement')
            if isinstance(stmt, ast.Return):
                return self.ev(stmt.value, env) if stmt.value is not None \
                    else None
            if isinstance(stmt, ast.Assign) and len(stmt.targets) == 1 and \
                    isinstance(stmt.targets[0], ast.Name):
                env[stmt.targets[0].id] = self.ev(stmt.value, env)
                continue
            if isinstance(stmt, ast.If):
                branch = stmt.body if self.truth(self.ev(stmt.test, env)) \
                    else stmt.orelse
                res = self._block(branch, env)
                if res is not _FALL:
                    return res
                continue
            if isinstance(stmt, ast.Pass):
                continue
            raise Unknown(f'statement {type(stmt).__name__}')
        return _FALL

    @staticmethod
    def truth(val):
        if isinstance(val, Member):
            return bool(val.value)
        return bool(val)

    # ---- expressions -------------------------------------------------------

    def ev(self, expr, env):
        meth = getattr(self, '_' + type(expr).__name__, None)
        if meth is None:
            raise Unknown(type(expr).__name__)
        return meth(expr, env)

    def _Constant(self, expr, env):
        return expr.value

    def _Name(self, expr, env):
        if expr.id in env:
            return env[expr.id]
        if expr.id in ('True', 'False', 'None'):
            return {'True': True, 'False': False, 'None': None}[expr.id]
        node = self.globals_fn(expr.id)
        if isinstance(node, ast.expr) and self.depth < 4:
            sub = MiniEval(self.enums, self.self_attrs, self.methods,
                           self.depth + 1, self.globals_fn)
            return sub.ev(node, {})
        raise Unknown(f'name {expr.id}')

    def _Attribute(self, expr, env):
        if isinstance(expr.value, ast.Name):
            if expr.value.id == 'self' and expr.attr in self.self_attrs:
                return self.self_attrs[expr.attr]
            if expr.value.id in self.enums and \
                    expr.attr in self.enums[expr.value.id]:
                return self.enums[expr.value.id][expr.attr]
        base = self.ev(expr.value, env)
        if isinstance(base, Member) and expr.attr in ('value', 'name'):
            return getattr(base, expr.attr)
        raise Unknown(f'attribute {expr.attr}')

    def _Tuple(self, expr, env):
        return tuple(self.ev(e, env) for e in expr.elts)

    def _List(self, expr, env):
        return [self.ev(e, env) for e in expr.elts]

    def _Set(self, expr, env):
        return {self.ev(e, env) for e in expr.elts}

    def _UnaryOp(self, expr, env):
        val = self.ev(expr.operand, env)
        if isinstance(expr.op, ast.Not):
            return not self.truth(val)
        if isinstance(expr.op, ast.USub) and isinstance(val, (int, float)):
            return -val
        raise Unknown('unary operator')

    def _BoolOp(self, expr, env):
        val = None
        for sub in expr.values:
            val = self.ev(sub, env)
            if isinstance(expr.op, ast.And) and not self.truth(val):
                return val
            if isinstance(expr.op, ast.Or) and self.truth(val):
                return val
        return val

    def _IfExp(self, expr, env):
        return self.ev(expr.body if self.truth(self.ev(expr.test, env))
                       else expr.orelse, env)

    def _Compare(self, expr, env):
        left = self.ev(expr.left, env)
        for oper, right_e in zip(expr.ops, expr.comparators):
            right = self.ev(right_e, env)
            try:
                if isinstance(oper, ast.Eq):
                    res = left == right
                elif isinstance(oper, ast.NotEq):
                    res = left != right
                elif isinstance(oper, ast.In):
                    res = left in right
                elif isinstance(oper, ast.NotIn):
                    res = left not in right
                elif isinstance(oper, ast.Is):
                    res = left is right or (left == right and isinstance(
                        left, (Member, bool, type(None))))
                elif isinstance(oper, ast.IsNot):
                    res = not (left is right or (
                        left == right and isinstance(
                            left, (Member, bool, type(None)))))
                elif isinstance(oper, ast.Lt):
                    res = left < right
                elif isinstance(oper, ast.LtE):
                    res = left <= right
                elif isinstance(oper, ast.Gt):
                    res = left > right
                elif isinstance(oper, ast.GtE):
                    res = left >= right
                else:
                    raise Unknown('comparison operator')
            except TypeError as err:
                raise Unknown(f'comparison: {err}') from err
            if not res:
                return False
            left = right
        return True

    def _Subscript(self, expr, env):
        base = self.ev(expr.value, env)
        if isinstance(expr.slice, ast.Slice):
            lower = self.ev(expr.slice.lower, env) if expr.slice.lower \
                else None
            upper = self.ev(expr.slice.upper, env) if expr.slice.upper \
                else None
            if isinstance(base, (list, tuple, str)):
                return base[lower:upper]
            raise Unknown('slice')
        idx = self.ev(expr.slice, env)
        try:
            return base[idx]
        except (KeyError, IndexError, TypeError) as err:
            raise Unknown(f'subscript raises {type(err).__name__}') from err

    def _comp_iter(self, generators, env, body):
        out = []

        def rec(level, scope):
            if level == len(generators):
                out.append(body(scope))
                return
            gen = generators[level]
            for item in self._iterate(self.ev(gen.iter, scope)):
                inner = dict(scope)
                self._bind(gen.target, item, inner)
                if all(self.truth(self.ev(c, inner)) for c in gen.ifs):
                    rec(level + 1, inner)
        rec(0, dict(env))
        return out

    @staticmethod
    def _iterate(val):
        if isinstance(val, (list, tuple, set, frozenset, dict)) or \
                type(val).__name__ in ('dict_items', 'dict_keys',
                                       'dict_values'):
            return list(val)
        raise Unknown('iteration')

    def _bind(self, target, val, env):
        if isinstance(target, ast.Name):
            env[target.id] = val
        elif isinstance(target, (ast.Tuple, ast.List)):
            vals = list(val)
            if len(vals) != len(target.elts):
                raise Unknown('unpacking')
            for elt, sub in zip(target.elts, vals):
                self._bind(elt, sub, env)
        else:
            raise Unknown('binding target')

    def _GeneratorExp(self, expr, env):
        return self._comp_iter(expr.generators, env,
                               lambda sc: self.ev(expr.elt, sc))

    _ListComp = _GeneratorExp

    def _SetComp(self, expr, env):
        return set(self._GeneratorExp(expr, env))

    def _DictComp(self, expr, env):
        return dict(self._comp_iter(
            expr.generators, env,
            lambda sc: (self.ev(expr.key, sc), self.ev(expr.value, sc))))

    def _Call(self, expr, env):
        fun = expr.func
        args = [self.ev(a, env) for a in expr.args]
        kwargs = {k.arg: self.ev(k.value, env) for k in expr.keywords
                  if k.arg}
        if isinstance(fun, ast.Name):
            if fun.id in SAFE_BUILTINS:
                try:
                    return SAFE_BUILTINS[fun.id](*args, **kwargs)
                except (TypeError, ValueError, StopIteration) as err:
                    raise Unknown(f'{fun.id}() raises '
                                  f'{type(err).__name__}') from err
            raise Unknown(f'call {fun.id}')
        if isinstance(fun, ast.Attribute):
            if isinstance(fun.value, ast.Name) and fun.value.id == 'self':
                meth = self.methods(fun.attr)
                if meth is None:
                    raise Unknown(f'method {fun.attr}')
                sub = MiniEval(self.enums, self.self_attrs, self.methods,
                               self.depth + 1, self.globals_fn)
                return sub.call_function(meth.node, args)
            base = self.ev(fun.value, env)
            for typ, names in SAFE_METHODS.items():
                if isinstance(base, typ) and fun.attr in names:
                    try:
                        return getattr(base, fun.attr)(*args, **kwargs)
                    except (TypeError, ValueError, KeyError) as err:
                        raise Unknown(f'{fun.attr}() raises') from err
            raise Unknown(f'method {fun.attr} on {type(base).__name__}')
        raise Unknown('call')


class _Fall:
    def __repr__(self):
        return '<fall>'


_FALL = _Fall()


def read_int_enum(program, modname, name):
    '''Members of an enum defined either with the functional API
    `IntEnum('Name', 'A B C')` (values 1..n) or as a class with integer
    assignments.'''
    mod = program.module(modname)
    val = mod.toplevel.get(name)
    if isinstance(val, ast.Call) and len(val.args) >= 2 and isinstance(
            val.args[1], ast.Constant) and isinstance(val.args[1].value,
                                                      str):
        names = val.args[1].value.replace(',', ' ').split()
        return {n: Member(name, n, i + 1) for i, n in enumerate(names)}
    klass = mod.classes.get(name)
    if klass is not None:
        out = {}
        for stmt in klass.node.body:
            if isinstance(stmt, ast.Assign) and isinstance(
                    stmt.value, ast.Constant) and isinstance(
                        stmt.value.value, int) and isinstance(
                            stmt.targets[0], ast.Name) and \
                    stmt.targets[0].id.isupper():
                out[stmt.targets[0].id] = Member(name, stmt.targets[0].id,
                                                 stmt.value.value)
        if out:
            return out
    return None
