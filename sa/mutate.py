'''Variants (canaries, mutants, twins) computed from the current source by AST
edits.  A variant is an in-memory overlay {relative path: new source}; nothing
is written to disk and nothing of valjean is executed (the overlay is only
byte-compiled to make sure the variant is a valid program).'''
import ast
import copy


class Variant:
    __slots__ = ('name', 'kind', 'overlay', 'expect', 'quick', 'note')

    def __init__(self, name, kind, overlay, expect=None, quick=False,
                 note=''):
        self.name = name
        self.kind = kind            # 'mutant' | 'twin'
        self.overlay = overlay      # None = operator found no target
        self.expect = set(expect or ())
        self.quick = quick
        self.note = note


def edit_module(program, modname, editor):
    '''Deep-copies the module tree, lets `editor(tree)` modify it in place
    (must return a true value if it applied), returns an overlay or None.'''
    mod = program.modules.get(modname)
    if mod is None:
        return None
    # the editors are written against the source AS IT IS WRITTEN, not against
    # the canonical normal form the rules see
    tree = ast.parse(mod.src)
    try:
        applied = editor(tree)
    except Exception:   # pylint: disable=broad-except
        # an editor that does not find its target (StopIteration from next(),
        # IndexError ...) yields a skipped variant, never a broken check
        applied = False
    if not applied:
        return None
    ast.fix_missing_locations(tree)
    src = ast.unparse(tree) + '\n'
    try:
        compile(src, mod.relpath, 'exec', dont_inherit=True)
    except (SyntaxError, ValueError):
        return None
    overlay = dict(program.overlay)
    overlay[mod.relpath] = src
    return overlay


def find_func(tree, qual):
    '''Locate a (possibly nested) function/class by dotted qualified name in
    a module tree.'''
    body = tree.body
    node = None
    for part in qual.split('.'):
        node = None
        for cand in _defs(body):
            if cand.name == part:
                node = cand
                break
        if node is None:
            raise LookupError(qual)
        body = node.body
    return node


def _defs(body):
    for node in body:
        if isinstance(node, (ast.FunctionDef, ast.AsyncFunctionDef,
                             ast.ClassDef)):
            yield node
        elif isinstance(node, (ast.If, ast.Try, ast.With, ast.For,
                               ast.While)):
            for fld in ('body', 'orelse', 'finalbody'):
                yield from _defs(getattr(node, fld, []) or [])
            for hdl in getattr(node, 'handlers', []) or []:
                yield from _defs(hdl.body)


def walk_with_parent(root):
    '''Yields (parent, field, index or None, node) for every node.'''
    todo = [root]
    while todo:
        cur = todo.pop()
        for fld, val in ast.iter_fields(cur):
            if isinstance(val, list):
                for idx, item in enumerate(val):
                    if isinstance(item, ast.AST):
                        yield cur, fld, idx, item
                        todo.append(item)
            elif isinstance(val, ast.AST):
                yield cur, fld, None, val
                todo.append(val)


def replace_node(parent, fld, idx, new):
    if idx is None:
        setattr(parent, fld, new)
    else:
        getattr(parent, fld)[idx] = new


def replace_first(root, pred, make_new, nth=0):
    '''Replace the nth node satisfying pred (in source order) by
    make_new(node).  Returns True if applied.'''
    matches = [(p, f, i, n) for p, f, i, n in walk_with_parent(root)
               if pred(n)]
    matches.sort(key=lambda m: (getattr(m[3], 'lineno', 0),
                                getattr(m[3], 'col_offset', 0)))
    if len(matches) <= nth:
        return False
    par, fld, idx, node = matches[nth]
    new = make_new(node)
    if new is None:
        return False
    replace_node(par, fld, idx, new)
    return True


def remove_stmt(root, pred, nth=0):
    '''Remove the nth statement satisfying pred (replaced by `pass` if it is
    alone in its block).'''
    matches = [(p, f, i, n) for p, f, i, n in walk_with_parent(root)
               if isinstance(n, ast.stmt) and i is not None and pred(n)]
    matches.sort(key=lambda m: getattr(m[3], 'lineno', 0))
    if len(matches) <= nth:
        return False
    par, fld, idx, _ = matches[nth]
    block = getattr(par, fld)
    if len(block) == 1:
        block[idx] = ast.Pass()
    else:
        del block[idx]
    return True


def insert_stmt(root, pred, new_stmts, where='after', nth=0):
    matches = [(p, f, i, n) for p, f, i, n in walk_with_parent(root)
               if isinstance(n, ast.stmt) and i is not None and pred(n)]
    matches.sort(key=lambda m: getattr(m[3], 'lineno', 0))
    if len(matches) <= nth:
        return False
    par, fld, idx, _ = matches[nth]
    block = getattr(par, fld)
    pos = idx + 1 if where == 'after' else idx
    block[pos:pos] = new_stmts
    return True


def parse_stmts(text):
    return ast.parse(text).body


def parse_expr(text):
    return ast.parse(text, mode='eval').body


def is_call_to(node, *names):
    '''Call whose callee's last attribute / name is one of names.'''
    if not isinstance(node, ast.Call):
        return False
    fun = node.func
    if isinstance(fun, ast.Attribute):
        return fun.attr in names
    if isinstance(fun, ast.Name):
        return fun.id in names
    return False


def stmt_calls(stmt, *names):
    return any(is_call_to(n, *names) for n in ast.walk(stmt))


def rename_locals(funcnode, mapping):
    '''Twin helper: rename local variables (Name nodes and arg names).'''
    for node in ast.walk(funcnode):
        if isinstance(node, ast.Name) and node.id in mapping:
            node.id = mapping[node.id]
        elif isinstance(node, ast.arg) and node.arg in mapping:
            node.arg = mapping[node.arg]
    return True
