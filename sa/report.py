'''Obligations, outcomes, known findings, evidence, output lines.'''
import ast
import json
import os
import time

from .loader import AnalysisError

VERIF = os.path.dirname(os.path.dirname(os.path.abspath(__file__)))
KNOWN_FILE = os.path.join(VERIF, 'known_findings.json')

HOLDS, VIOLATED, UNDECIDED = 'holds', 'violated', 'undecided'


def norm(node_or_text, limit=160):
    '''Normalised construct text (no positions, single spaces).'''
    if isinstance(node_or_text, ast.AST):
        txt = ast.unparse(node_or_text)
    else:
        txt = str(node_or_text)
    txt = ' '.join(txt.split())
    return txt if len(txt) <= limit else txt[:limit - 3] + '...'


class Obligation:
    __slots__ = ('rule', 'site', 'construct', 'outcome', 'at', 'detail',
                 'nontrivial')

    def __init__(self, rule, site, construct, outcome, at=None, detail=None,
                 nontrivial=True):
        self.rule = rule
        self.site = site
        self.construct = construct
        self.outcome = outcome
        self.at = at
        self.detail = detail
        self.nontrivial = nontrivial

    @property
    def key(self):
        return (self.rule, self.site, self.construct)

    def as_dict(self):
        out = {'rule': self.rule, 'site': self.site,
               'construct': self.construct, 'outcome': self.outcome}
        if self.at:
            out['at'] = self.at
        if self.detail is not None:
            out['detail'] = self.detail
        return out


class Ctx:
    '''Collects the obligations of one run of one property's rules on one
    program (the real tree or an overlay).'''

    def __init__(self, prop, program, tier='quick'):
        self.prop = prop
        self.program = program
        self.tier = tier
        self.obligations = []
        self.stats = {}
        self.notes = []
        self.errors = []        # AnalysisError texts of rules that gave up

    def run(self, rule_fn, *args, **kwargs):
        '''Runs one rule; a rule that no longer sees its anchors
        (AnalysisError) is recorded and the remaining rules still run, so
        that a restructured site does not hide a violation found by
        another rule.'''
        try:
            return rule_fn(self, *args, **kwargs)
        except AnalysisError as err:
            self.errors.append(f'{getattr(rule_fn, "__name__", "rule")}: '
                               f'{err}')
            return None

    def ob(self, rule, site, construct, outcome, at=None, detail=None,
           nontrivial=True):
        if hasattr(site, 'key'):
            site = site.key
        obl = Obligation(rule, site, norm(construct), outcome, at, detail,
                         nontrivial)
        self.obligations.append(obl)
        return obl

    def holds(self, rule, site, construct, **kw):
        return self.ob(rule, site, construct, HOLDS, **kw)

    def violated(self, rule, site, construct, **kw):
        return self.ob(rule, site, construct, VIOLATED, **kw)

    def undecided(self, rule, site, construct, **kw):
        return self.ob(rule, site, construct, UNDECIDED, **kw)

    def decide(self, rule, site, construct, cond, **kw):
        '''cond: True -> holds, False -> violated, None -> undecided.'''
        outcome = HOLDS if cond is True else VIOLATED if cond is False \
            else UNDECIDED
        return self.ob(rule, site, construct, outcome, **kw)

    def floor(self, rule, found, expected_min, what):
        '''A site query that finds fewer instances than confirmed by hand
        means the analyser no longer sees the code: exit 2.'''
        self.stats[f'sites[{rule}]'] = found
        if found < expected_min:
            raise AnalysisError(
                f'rule {rule}: site query "{what}" found {found} instance(s),'
                f' floor is {expected_min} (anchor renamed or restructured '
                f'beyond what the rule understands)')

    def count(self, key, n=1):
        self.stats[key] = self.stats.get(key, 0) + n

    def by_outcome(self, outcome):
        return [o for o in self.obligations if o.outcome == outcome]

    def rules(self):
        return sorted({o.rule for o in self.obligations})

    def check_not_all_undecided(self):
        per_rule = {}
        for obl in self.obligations:
            per_rule.setdefault(obl.rule, []).append(obl.outcome)
        for rule, outs in per_rule.items():
            if outs and all(o == UNDECIDED for o in outs):
                raise AnalysisError(
                    f'rule {rule}: all {len(outs)} obligation(s) undecided: '
                    f'the rule no longer understands the code')


def load_known():
    if not os.path.exists(KNOWN_FILE):
        return []
    with open(KNOWN_FILE, encoding='utf-8') as fil:
        return json.load(fil)


def known_entry(known, prop, obl):
    for ent in known:
        if ent.get('status') != 'known':
            continue
        if ent['property'] == prop and ent['rule'] == obl.rule and \
                ent['site'] == obl.site and ent['construct'] == obl.construct:
            return ent
    return None


def write_json(path, obj):
    os.makedirs(os.path.dirname(path), exist_ok=True)
    tmp = path + '.tmp'
    with open(tmp, 'w', encoding='utf-8') as fil:
        json.dump(obj, fil, indent=1, sort_keys=False, default=str)
        fil.write('\n')
    os.replace(tmp, path)


class Timer:
    def __init__(self):
        self.start = time.time()

    def elapsed(self):
        return round(time.time() - self.start, 3)
