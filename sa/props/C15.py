'''C15 - generated tasks correspond one-to-one to what was asked for.'''
import ast

from ..rules import memo, patterns
from ..astutil import txt, call_name
from ..mutate import (Variant, edit_module, find_func, replace_first,
                      remove_stmt, insert_stmt, parse_stmts, parse_expr)

ID = 'C15'
CLAIM = '''
Structural clauses decided: KEY - for the two memo functions found by query
(Use.get_task with the class-level Use._CACHE, RunTaskFactory.make with the
per-factory cache) a per-path def-use interpretation over the CFG computes,
for every path to the cache lookup, the sources (self fields with element
components such as inj_args[*][0] = task / [*][1] = key, inj_kwargs keys and
values, parameters) the cache key is derived from, and the sources the newly
created task is built from (constructor arguments and the free variables of
the closures handed to it). Rule: every behaviour source is a key source
(fields of the object owning an instance-level cache count as constant);
a field that reaches the key only through set()/sorted() while the task uses
its elements in order is reported as "order". KEY-HIT - a hit returns the
cached object, a miss stores and returns the new one (identical requests get
the same task). UNIQUE - collect_tasks returns the list produced by
close_dependency_graph after check_unique_task_names has been applied to that
very list; the check visits every task and raises when a name is seen twice.
CLOSE-FIELDS - every dependency-set field initialised in Task.__init__ flows
into both the result and the next round of close_dependency_graph, and
build_graphs sends depends_on to the hard graph and soft_depends_on to the
soft graph, with every task a node of both.
The closure de-duplicates tasks by identity, not by name (the name check that
follows must see both tasks of an equal-name pair). USE-PURE - deriving a
wrapper from another (from_func, map, using) has no write effect on the
wrapper or task it starts from (ownership analysis). CLOSE-FRESH - the closure and its helpers remember nothing between calls (no
attribute stored on a task, no functools cache). KEY-INJECTIVE - no separator-joined sequence on the way from the sources to
the key (followed through locals and package helpers). FACTORY-PURE - the only
write of RunTaskFactory.make / copy that reaches the factory or the arguments,
through any callee, is the memo self.cache (a request never changes what later
requests of the same factory get).
CACHE-KEEP - nothing in the module removes entries from a memo container (no
eviction: after one, an identical request builds a second task).
Not decided: the behaviour of a generated task when it is run (do() on a
prepared environment); termination of the closure on cyclic graphs.
'''
ASSUMPTIONS = ['two requests are "the same" when they agree on every source '
               'the created task is built from']
TECHNIQUE = ('static analysis: per-path def-use (dependence) interpretation '
             'on the CFG of the memo functions, must-pass / same-source '
             'checks')

USE = 'valjean.cosette.use'
RUN = 'valjean.cosette.run'
TASK = 'valjean.cosette.task'
COMMON = 'valjean.cambronne.common'


def check(ctx):
    ctx.run(memo.check_key)
    ctx.run(memo.check_unique)
    ctx.run(memo.check_close_fields)
    ctx.run(memo.check_use_pure)
    ctx.run(memo.check_factory_pure)
    ctx.run(memo.check_close_fresh)
    ctx.run(memo.check_cache_keep)
    ctx.run(patterns.check_patterns, ID)


def _variants(program):
    out = []

    def add(name, kind, mod, editor, expect=None, quick=False, note=''):
        out.append(Variant(name, kind, edit_module(program, mod, editor),
                           expect, quick, note))

    def factory_key_forgets_kwargs(tree):
        fun = find_func(tree, 'RunTaskFactory.make')
        return replace_first(
            fun, lambda n: isinstance(n, ast.Call) and call_name(n) ==
            'det_hash', lambda n: parse_expr('det_hash(self.name, '
                                             'extra_args)'))
    add('factory-key-forgets-format-arguments', 'mutant', RUN,
        factory_key_forgets_kwargs, {'KEY'}, quick=True,
        note='make(x=1) and make(x=2) then share one task')

    def factory_key_forgets_extra(tree):
        fun = find_func(tree, 'RunTaskFactory.make')
        return replace_first(
            fun, lambda n: isinstance(n, ast.Call) and call_name(n) ==
            'det_hash', lambda n: parse_expr('det_hash(self.name, kwargs_)'))
    add('factory-key-forgets-extra-arguments', 'mutant', RUN,
        factory_key_forgets_extra, {'KEY'})

    def use_key_forgets_name(tree):
        fun = find_func(tree, 'Use.get_task')
        return replace_first(
            fun, lambda n: isinstance(n, ast.Tuple) and txt(n) ==
            '(dep_names, self.func_name)',
            lambda n: parse_expr('(dep_names,)'))
    add('use-key-forgets-function-name', 'mutant', USE,
        use_key_forgets_name, {'KEY'}, quick=True)

    def use_key_forgets_deps(tree):
        fun = find_func(tree, 'Use.get_task')
        return replace_first(
            fun, lambda n: isinstance(n, ast.Tuple) and txt(n) ==
            '(dep_names, self.func_name)',
            lambda n: parse_expr('(self.func_name,)'))
    add('use-key-forgets-injected-tasks', 'mutant', USE,
        use_key_forgets_deps, {'KEY'})

    def use_key_joined(tree):
        # the F23 defect: the key is the joined string of the names
        fun = find_func(tree, 'Use.get_task')
        return replace_first(
            fun, lambda n: isinstance(n, ast.Tuple) and txt(n) ==
            '(dep_names, self.func_name)',
            lambda n: parse_expr("','.join(dep_names) + '.' + "
                                 "self.func_name"))
    add('use-key-is-the-joined-string-of-the-names', 'mutant', USE,
        use_key_joined, {'KEY-INJECTIVE'}, quick=True,
        note="the F23 defect: one task 'a,b' and the tasks 'a', 'b' collide")

    def factory_key_joined(tree):
        # seed C15-r3-1
        fun = find_func(tree, 'RunTaskFactory.make')
        return replace_first(
            fun, lambda n: isinstance(n, ast.Call) and call_name(n) ==
            'det_hash',
            lambda n: parse_expr("det_hash(self.name, ' '.join(str(a) for a "
                                 "in extra_args), kwargs_)"))
    add('seed-factory-key-from-the-joined-command-line', 'mutant', RUN,
        factory_key_joined, {'KEY-INJECTIVE'})

    def closure_memoised(tree):
        # seed C15-r3-2 (reduced): the closure of a task is remembered on it
        fun = find_func(tree, 'close_dependency_graph')
        for idx, stmt in enumerate(fun.body):
            if isinstance(stmt, ast.Return):
                fun.body.insert(idx, parse_stmts(
                    'for task in tasks:\n'
                    '    task._closure_memo = all_tasks')[0])
                return True
        return False
    add('seed-closure-remembered-on-the-tasks', 'mutant', TASK,
        closure_memoised, {'CLOSE-FRESH'},
        note='a dependency added further down after task_stats() is never '
             'collected')

    def make_extends_factory_deps(tree):
        # seed C15-r2-1: the factory's own list is extended in place
        fun = find_func(tree, 'RunTaskFactory.make')
        return replace_first(
            fun, lambda n: isinstance(n, ast.BinOp) and txt(n) ==
            'self.deps + deps',
            lambda n: parse_expr('self.deps.__iadd__(deps)'))
    add('seed-make-extends-the-factory-dependencies', 'mutant', RUN,
        make_extends_factory_deps, {'FACTORY-PURE'}, quick=True,
        note='every later task of the factory depends on them too')

    def make_updates_factory_kwargs(tree):
        fun = find_func(tree, 'RunTaskFactory.make')
        return replace_first(
            fun, lambda n: isinstance(n, ast.Call) and txt(n) ==
            'self.kwargs.copy()', lambda n: parse_expr('self.kwargs'))
    add('make-updates-the-factory-format-arguments', 'mutant', RUN,
        make_updates_factory_kwargs, {'FACTORY-PURE'})

    def make_unpacks_deps(tree):
        fun = find_func(tree, 'RunTaskFactory.make')
        return replace_first(
            fun, lambda n: isinstance(n, ast.BinOp) and txt(n) ==
            'self.deps + deps',
            lambda n: parse_expr('[*self.deps, *deps]'))
    add('twin-make-unpacks-dependencies', 'twin', RUN, make_unpacks_deps)

    def cache_bounded(tree):
        fun = find_func(tree, 'Use.get_task')
        for pos, stmt in enumerate(fun.body):
            if isinstance(stmt, ast.Assign) and isinstance(
                    stmt.targets[0], ast.Subscript) and '_CACHE' in txt(
                        stmt.targets[0]):
                fun.body.insert(pos + 1, parse_stmts(
                    'while len(self._CACHE) > 512:\n'
                    '    self._CACHE.pop(next(iter(self._CACHE)))')[0])
                return True
        return False
    add('seed-use-cache-bounded-by-evicting-the-oldest-entry', 'mutant', USE,
        cache_bounded, {'CACHE-KEEP'},
        note='seed C15-r4-1: after 512 other requests an identical request '
             'builds a second task')

    def hit_returns_new(tree):
        fun = find_func(tree, 'RunTaskFactory.make')
        return remove_stmt(fun, lambda s: isinstance(s, ast.If) and
                           'in self.cache' in txt(s.test))
    add('factory-never-hits', 'mutant', RUN, hit_returns_new,
        {'KEY', 'KEY-HIT'},
        note='anchor destroyed: detected as analysis error')

    def unique_before_closure(tree):
        fun = find_func(tree, 'collect_tasks')
        idx = [i for i, s in enumerate(fun.body)
               if 'check_unique_task_names' in txt(s)][0]
        jdx = [i for i, s in enumerate(fun.body)
               if 'close_dependency_graph' in txt(s) and isinstance(
                   s, ast.Assign)][0]
        stmt = fun.body.pop(idx)
        fun.body.insert(jdx, stmt)
        return True
    add('names-checked-before-closure', 'mutant', COMMON,
        unique_before_closure, {'UNIQUE'}, quick=True,
        note='duplicates among the dependencies are not seen')

    def unique_dropped(tree):
        fun = find_func(tree, 'check_unique_task_names')
        return remove_stmt(fun, lambda s: isinstance(s, ast.If) and
                           txt(s.test) == 'dups')
    add('duplicates-only-collected', 'mutant', COMMON, unique_dropped,
        {'UNIQUE'})

    def closure_forgets_soft(tree):
        fun = find_func(tree, 'close_dependency_graph')
        return replace_first(
            fun, lambda n: isinstance(n, ast.BinOp) and txt(n) ==
            'deps | soft_deps', lambda n: n.left)
    add('closure-does-not-follow-soft-dependencies', 'mutant', TASK,
        closure_forgets_soft, {'CLOSE-FIELDS'}, quick=True,
        note='soft dependencies of soft dependencies are dropped')

    def closure_forgets_update(tree):
        fun = find_func(tree, 'close_dependency_graph')
        return remove_stmt(fun, lambda s: isinstance(s, ast.Expr) and
                           'all_tasks.update(soft_deps)' in txt(s))
    add('closure-result-without-soft-dependencies', 'mutant', TASK,
        closure_forgets_update, {'CLOSE-FIELDS'})

    def graphs_swapped(tree):
        fun = find_func(tree, 'build_graphs')
        for node in ast.walk(fun):
            if isinstance(node, ast.For) and txt(node.iter) == \
                    'task.soft_depends_on':
                for call in ast.walk(node):
                    if isinstance(call, ast.Call) and call_name(call) == \
                            'add_dependency':
                        call.func.value = ast.Name(id='hard_graph',
                                                   ctx=ast.Load())
                        return True
        return False
    add('soft-edges-into-hard-graph', 'mutant', COMMON, graphs_swapped,
        {'CLOSE-FIELDS'})

    def closure_dfs_by_name(tree):
        fun = find_func(tree, 'close_dependency_graph')
        doc = [s_ for s_ in fun.body if isinstance(s_, ast.Expr) and
               isinstance(s_.value, ast.Constant)]
        fun.body = doc + parse_stmts(
            'all_tasks = list(dict.fromkeys(tasks))\n'
            'seen = set(task.name for task in all_tasks)\n'
            'queue = all_tasks.copy()\n'
            'while queue:\n'
            '    task = queue.pop()\n'
            '    for dep in list(task.depends_on) + '
            'list(task.soft_depends_on):\n'
            '        if dep.name in seen:\n'
            '            continue\n'
            '        seen.add(dep.name)\n'
            '        all_tasks.append(dep)\n'
            '        queue.append(dep)\n'
            'return all_tasks')
        return True
    add('closure-visits-each-name-once', 'mutant', TASK,
        closure_dfs_by_name, {'CLOSE-FIELDS'},
        note='seeded C15-1: a second task with an already seen name is '
             'dropped: the duplicate-name check never sees it')

    def closure_dfs_by_identity(tree):
        fun = find_func(tree, 'close_dependency_graph')
        doc = [s_ for s_ in fun.body if isinstance(s_, ast.Expr) and
               isinstance(s_.value, ast.Constant)]
        fun.body = doc + parse_stmts(
            'all_tasks = list(dict.fromkeys(tasks))\n'
            'seen = set(all_tasks)\n'
            'queue = all_tasks.copy()\n'
            'while queue:\n'
            '    task = queue.pop()\n'
            '    for dep in list(task.depends_on) + '
            'list(task.soft_depends_on):\n'
            '        if dep in seen:\n'
            '            continue\n'
            '        seen.add(dep)\n'
            '        all_tasks.append(dep)\n'
            '        queue.append(dep)\n'
            'return all_tasks')
        return True
    add('twin-closure-depth-first-by-identity', 'twin', TASK,
        closure_dfs_by_identity)

    def from_func_shares_kwargs(tree):
        fun = find_func(tree, 'Use.from_func')
        return replace_first(
            fun, lambda n: isinstance(n, ast.Call) and txt(n) ==
            'func.inj_kwargs.copy()',
            lambda n: parse_expr("getattr(func, 'inj_kwargs', None) or {}"))
    add('derived-wrapper-shares-keyword-injections', 'mutant', USE,
        from_func_shares_kwargs, {'USE-PURE'},
        note='seeded C15-2: decorating a wrapper a second time adds the '
             'keyword injection to the wrapper itself and to everything '
             'derived from it')

    # ---- twins
    def key_local(tree):
        fun = find_func(tree, 'RunTaskFactory.make')
        return replace_first(
            fun, lambda n: isinstance(n, ast.Call) and call_name(n) ==
            'det_hash', lambda n: parse_expr(
                'det_hash([self.name, extra_args, kwargs_])'))
    add('twin-hash-of-one-list', 'twin', RUN, key_local)

    def closure_union(tree):
        fun = find_func(tree, 'close_dependency_graph')
        ok = remove_stmt(fun, lambda s: isinstance(s, ast.Expr) and
                         'all_tasks.update(soft_deps)' in txt(s))
        return ok and replace_first(
            fun, lambda n: isinstance(n, ast.Call) and txt(n) ==
            'all_tasks.update(deps)',
            lambda n: parse_expr('all_tasks.update(deps | soft_deps)'))
    add('twin-single-update-of-the-union', 'twin', TASK, closure_union)
    return out


def variants(program):
    from ..variants import patterns as _pv
    return list(_variants(program)) + _pv.variants(program, ID)
