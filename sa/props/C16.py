'''C16 - the dependency graph mirrors a plain node/edge set.'''
import ast

from ..rules import depgraph, patterns
from ..astutil import txt, call_name
from ..mutate import (Variant, edit_module, find_func, replace_first,
                      remove_stmt, insert_stmt, parse_stmts, parse_expr)

ID = 'C16'
CLAIM = '''
Structural clauses decided (cosette/depgraph.py, cosette/rlist.py): OWN-CTOR
- the ownership analysis (sa/effects.py) computes what the container fields
hold when the constructors return: DepGraph._nodes and DepGraph._edges are
two fresh layers above anything reachable from the arguments (a new RList
with a new internal list; a new dict with new sets), RList._seq / _index are
fresh containers. OWN-COPY - copy, invert, __add__,
from_dependency_dictionary and RList.copy return objects that reach their
operands only below those fresh layers (the user nodes themselves are
shared, the containers are not). DG-PURE - none of the 29 read-only methods
(copy, invert, __add__, iteration, comparison, queries, topological_sort,
to_graphviz ...) has a write effect on self or on the other operand, through
any callee. PAIR - every method that changes the structure of _nodes (resp.
_seq) also changes _edges (resp. _index) and vice versa. PAIR-SHIFT - the
position re-numbering of RList.insert / __delitem__, as a decision table over
the ordering of a recorded position and the index: insert keeps lt and adds 1
on eq and gt; delete drops eq, keeps lt and subtracts 1 on gt; all keys of the
reverse map are visited. SWAP-TABLE - the renumbering closure of
DepGraph.remove_node maps i -> last, last -> i, other -> other; the row, the
incoming edges and the node deleted are `last`.
INDEX-PRUNE - membership of an RList is key presence in the reverse map: every
method that removes a position from a list of the map deletes the key when
the list becomes empty.
SWAP-SEM - remove_node interpreted over the position classes {removed, last,
other} on all 528 abstract graphs (sa/symgraph.py) yields the rows of the
mathematical removal. FLATTEN-FIXPOINT - flatten ends on a re-scan of self._nodes that finds no
graph-node; a visited-set skip of an "already grafted" graph is
recognised-wrong (a later graft brings a shared nested graph back).
Not decided (value-level algorithms): topological sort, transitive reduction
and closure, graft / flatten (including the known loss of ordering through an
EMPTY nested graph, DESIGN section 4), isomorphism.
'''
ASSUMPTIONS = ['iteration / subscripting of an RList yields its elements '
               '(MutableSequence mixins)']
TECHNIQUE = ('static analysis: ownership / write-effect dataflow with '
             'constructor field summaries, co-update rule, decision tables '
             'of index arithmetic')

DGM = 'valjean.cosette.depgraph'
RLM = 'valjean.cosette.rlist'


def check(ctx):
    analyzer = depgraph.make_analyzer(ctx.program)
    ctx.run(depgraph.check_own, analyzer)
    ctx.run(depgraph.check_dg_pure, analyzer)
    ctx.run(depgraph.check_pair)
    ctx.run(depgraph.check_pair_shift)
    ctx.run(depgraph.check_swap_table)
    ctx.run(depgraph.check_swap_sem)
    ctx.run(depgraph.check_index_prune)
    ctx.run(depgraph.check_flatten_fixpoint)
    ctx.run(depgraph.check_topo_cycle)
    ctx.stats['functions_analysed'] = analyzer.functions_analysed
    ctx.stats['call_sites_resolved'] = analyzer.calls_resolved
    ctx.run(patterns.check_patterns, ID)


def _variants(program):
    out = []

    def add(name, kind, mod, editor, expect=None, quick=False, note=''):
        out.append(Variant(name, kind, edit_module(program, mod, editor),
                           expect, quick, note))

    def _kahn(complete):
        def editor(tree):
            fun = find_func(tree, 'DepGraph.topological_sort')
            start = 1 if isinstance(fun.body[0], ast.Expr) else 0
            body = (
                'result = []\n'
                'n_pending = {}\n'
                'waiting = {index: [] for index in self._edges}\n'
                'for index, targets in self._edges.items():\n'
                '    n_pending[index] = len(targets)\n'
                '    for target in targets:\n'
                '        waiting[target].append(index)\n'
                'ready = [index for index, n_deps in n_pending.items() '
                'if n_deps == 0]\n'
                'if n_pending and not ready:\n'
                "    raise DepGraphError('Dependency graph is cyclic!')\n"
                'while ready:\n'
                '    index = ready.pop()\n'
                '    result.append(self._nodes[index])\n'
                '    for dependee in waiting[index]:\n'
                '        n_pending[dependee] -= 1\n'
                '        if n_pending[dependee] == 0:\n'
                '            ready.append(dependee)\n')
            if complete:
                body += ('if len(result) != len(self._nodes):\n'
                         "    raise DepGraphError('Dependency graph is "
                         "cyclic!')\n")
            body += 'return result'
            fun.body[start:] = parse_stmts(body)
            return True
        return editor
    add('seed-iterative-sort-without-completeness-test', 'mutant', DGM,
        _kahn(False), {'TOPO-CYCLE'},
        note='seed C16-r4-1: a cycle below an acyclic part is dropped from '
             'the result instead of raising')
    add('twin-iterative-sort-with-completeness-test', 'twin', DGM,
        _kahn(True))

    def _visit_once(per_start):
        def editor(tree):
            fun = find_func(tree, 'DepGraph.transitive_reduction')
            visit = next(n for n in fun.body
                         if isinstance(n, ast.FunctionDef))
            loop = next(n for n in fun.body if isinstance(n, ast.For))
            visit.body[0:0] = parse_stmts(
                'if current in expanded:\n'
                '    return set()\n'
                'expanded.add(current)')
            new = parse_stmts('expanded = set()')
            if per_start:
                loop.body[0:0] = new
                fun.body.insert(fun.body.index(visit), new[0])
            else:
                fun.body.insert(fun.body.index(visit), new[0])
            return True
        return editor
    add('seed-reduction-expands-every-node-once-for-all-start-nodes',
        'mutant', DGM, _visit_once(False), {'VISITED-KEY'},
        note='seed C16-r4-2: the visited set survives from one start node '
             'to the next, redundant edges of later nodes are kept')
    add('twin-reduction-expands-every-node-once-per-start-node', 'twin', DGM,
        _visit_once(True))

    def complete_keeps_sets(tree):
        fun = find_func(tree, 'DepGraph._complete')
        return remove_stmt(fun, lambda s: isinstance(s, ast.Assign) and
                           isinstance(s.value, ast.DictComp))
    add('edge-sets-not-rebuilt', 'mutant', DGM, complete_keeps_sets,
        {'OWN-CTOR', 'OWN-COPY'}, quick=True,
        note='a copy then shares its edge sets with the original: adding a '
             'dependency to the copy changes the original')

    def nodes_by_reference(tree):
        fun = find_func(tree, 'DepGraph.__init__')
        return replace_first(
            fun, lambda n: isinstance(n, ast.Call) and txt(n) ==
            'RList(nodes)', lambda n: n.args[0])
    add('node-list-stored-by-reference', 'mutant', DGM, nodes_by_reference,
        {'OWN-CTOR', 'OWN-COPY'})

    def rlist_shares_seq(tree):
        fun = find_func(tree, 'RList.copy')
        fun.body = [s for s in fun.body if isinstance(s, ast.Expr)] + \
            parse_stmts('new = RList(key=self._key)\n'
                        'new._seq = self._seq\n'
                        'new._index = self._index\n'
                        'return new')
        return True
    add('rlist-copy-shares-storage', 'mutant', RLM, rlist_shares_seq,
        {'OWN-COPY'}, quick=True)

    def add_in_place(tree):
        fun = find_func(tree, 'DepGraph.__add__')
        return replace_first(
            fun, lambda n: isinstance(n, ast.Call) and txt(n) ==
            'self.copy()', lambda n: ast.Name(id='self', ctx=ast.Load()))
    add('sum-merges-into-left-operand', 'mutant', DGM, add_in_place,
        {'DG-PURE', 'OWN-COPY'}, quick=True)

    def le_mutates(tree):
        fun = find_func(tree, 'DepGraph.dependees')
        idx = 1 if isinstance(fun.body[0], ast.Expr) else 0
        fun.body[idx:idx] = parse_stmts('self.add_node(node)')
        return True
    add('query-adds-the-node-it-asks-about', 'mutant', DGM, le_mutates,
        {'DG-PURE'})

    def add_node_no_row(tree):
        fun = find_func(tree, 'DepGraph.add_node')
        return remove_stmt(fun, lambda s: isinstance(s, ast.Assign) and
                           'self._edges[new_index]' in txt(s))
    add('new-node-without-edge-row', 'mutant', DGM, add_node_no_row,
        {'PAIR'}, quick=True)

    def remove_keeps_node(tree):
        fun = find_func(tree, 'DepGraph.remove_node')
        ok = remove_stmt(fun, lambda s: isinstance(s, ast.Delete) and
                         'self._nodes[last]' in txt(s))
        return ok and remove_stmt(
            fun, lambda s: isinstance(s, ast.Expr) and 'self._nodes.swap' in
            txt(s))
    add('removal-leaves-node-list-alone', 'mutant', DGM, remove_keeps_node,
        {'PAIR', 'SWAP-TABLE'})

    def setitem_no_index(tree):
        fun = find_func(tree, 'RList.__setitem__')
        return remove_stmt(fun, lambda s: isinstance(s, ast.Expr) and
                           'self._index[self._key(value)].append' in txt(s))
    add('setitem-forgets-new-key', 'twin', RLM, setitem_no_index,
        note='still writes self._index (removal of the old key): the '
             'co-update rule cannot tell; must stay silent')

    def delitem_no_index(tree):
        fun = find_func(tree, 'RList.__delitem__')
        fun.body = [s for s in fun.body if isinstance(s, ast.Expr) and
                    isinstance(s.value, ast.Constant)] + parse_stmts(
                        'if index < 0:\n    index += len(self)\n'
                        'del self._seq[index]')
        return True
    add('delete-forgets-reverse-map', 'mutant', RLM, delitem_no_index,
        {'PAIR', 'PAIR-SHIFT'})

    def insert_le(tree):
        fun = find_func(tree, 'RList.insert')
        return replace_first(
            fun, lambda n: isinstance(n, ast.Compare) and txt(n) ==
            'i < index', lambda n: parse_expr('i <= index'))
    add('insert-shift-off-by-one', 'mutant', RLM, insert_le, {'PAIR-SHIFT'},
        quick=True, note='the element at the insertion position keeps its '
        'recorded position')

    def delete_plus(tree):
        fun = find_func(tree, 'RList.__delitem__')
        return replace_first(
            fun, lambda n: isinstance(n, ast.BinOp) and txt(n) == 'i - 1',
            lambda n: parse_expr('i + 1'))
    add('delete-shifts-up', 'mutant', RLM, delete_plus, {'PAIR-SHIFT'})

    def swapper_one_way(tree):
        fun = find_func(tree, 'DepGraph.remove_node')
        return replace_first(
            fun, lambda n: isinstance(n, ast.If) and txt(n.test) ==
            'k == last', lambda n: ast.Pass())
    add('renumbering-one-way', 'mutant', DGM, swapper_one_way,
        {'SWAP-TABLE'}, quick=True,
        note='edges into the former last node keep pointing at `last`')

    def delete_wrong_row(tree):
        fun = find_func(tree, 'DepGraph.remove_node')
        return replace_first(
            fun, lambda n: isinstance(n, ast.Delete) and txt(n.targets[0])
            == 'self._edges[last]',
            lambda n: parse_stmts('del self._edges[i]')[0])
    add('wrong-row-deleted', 'mutant', DGM, delete_wrong_row, {'SWAP-TABLE'})

    def tail_fast_path(tree):
        fun = find_func(tree, 'RList.__delitem__')
        idx = next(i for i, s_ in enumerate(fun.body)
                   if isinstance(s_, ast.If)) + 1
        fun.body[idx:idx] = parse_stmts(
            'if index == len(self) - 1:\n'
            '    self._index[self._key(self._seq.pop())].remove(index)\n'
            '    return')
        return True
    add('tail-deletion-leaves-an-empty-key', 'mutant', RLM, tail_fast_path,
        {'INDEX-PRUNE'}, note='seeded C16-2: after remove_node the node is '
        'still "in" the graph and can never be added again')

    # ---- twins
    def copy_without_copies(tree):
        fun = find_func(tree, 'DepGraph.copy')
        return replace_first(
            fun, lambda n: isinstance(n, ast.Call) and call_name(n) ==
            'DepGraph', lambda n: parse_expr(
                'DepGraph(self._nodes, self._edges)'))
    add('twin-copy-relies-on-constructor', 'twin', DGM, copy_without_copies,
        note='the constructor rebuilds every container: the explicit copies '
             'are redundant')

    def ge_form(tree):
        fun = find_func(tree, 'RList.insert')
        return replace_first(
            fun, lambda n: isinstance(n, ast.IfExp) and 'i < index' in
            txt(n), lambda n: parse_expr('i + 1 if i >= index else i'))
    add('twin-shift-test-flipped', 'twin', RLM, ge_form)

    def deepcopy_edges(tree):
        fun = find_func(tree, 'DepGraph._complete')
        return replace_first(
            fun, lambda n: isinstance(n, ast.DictComp),
            lambda n: parse_expr('dict((k, set(v)) for k, v in '
                                 'complete_dct.items())'))
    add('twin-dict-of-generator', 'twin', DGM, deepcopy_edges)
    def prune_with_len(tree):
        fun = find_func(tree, 'RList.__setitem__')
        return replace_first(
            fun, lambda n: isinstance(n, ast.If) and txt(n.test) ==
            'not indices',
            lambda n: ast.If(test=parse_expr('len(indices) == 0'),
                             body=n.body, orelse=n.orelse))
    add('twin-emptiness-tested-with-len', 'twin', RLM, prune_with_len)
    def flatten_worklist(tree):
        # seed C16-r2-1
        fun = find_func(tree, 'DepGraph.flatten')
        doc = [s_ for s_ in fun.body if isinstance(s_, ast.Expr) and
               isinstance(s_.value, ast.Constant)]
        fun.body = doc + parse_stmts(
            'todo = [n for n in self._nodes if isinstance(n, DepGraph)]\n'
            'grafted = set()\n'
            'while todo:\n'
            '    node = todo.pop()\n'
            '    if id(node) in grafted:\n'
            '        continue\n'
            '    grafted.add(id(node))\n'
            '    self.graft(node)\n'
            '    if recurse:\n'
            '        todo.extend(n for n in node.nodes() '
            'if isinstance(n, DepGraph))\n'
            'return self')
        return True
    add('seed-flatten-skips-graphs-already-grafted', 'mutant', DGM,
        flatten_worklist, {'FLATTEN-FIXPOINT'},
        note='a nested graph shared between two places stays in the '
             'flattened graph')

    def flatten_for_rescan(tree):
        fun = find_func(tree, 'DepGraph.flatten')
        doc = [s_ for s_ in fun.body if isinstance(s_, ast.Expr) and
               isinstance(s_.value, ast.Constant)]
        fun.body = doc + parse_stmts(
            'graphs = [n for n in self._nodes if isinstance(n, DepGraph)]\n'
            'while graphs:\n'
            '    for sub in graphs:\n'
            '        self.graft(sub)\n'
            '    if not recurse:\n'
            '        break\n'
            '    graphs = [n for n in self._nodes '
            'if isinstance(n, DepGraph)]\n'
            'return self')
        return True
    add('twin-flatten-renamed-locals', 'twin', DGM, flatten_for_rescan)

    def get_index_subscript(tree):
        # seed C16-r3-1: a lookup miss inserts the key
        fun = find_func(tree, 'RList.get_index')
        doc = [s_ for s_ in fun.body if isinstance(s_, ast.Expr) and
               isinstance(s_.value, ast.Constant)]
        fun.body = doc + parse_stmts(
            'ind = self._index[self._key(value)]\n'
            'return ind[0] if ind else default')
        return True
    add('seed-lookup-miss-inserts-the-key', 'mutant', RLM,
        get_index_subscript, {'DG-PURE'},
        note='`node in graph` is then true for a node the graph never held')

    def get_index_guarded(tree):
        fun = find_func(tree, 'RList.get_index')
        doc = [s_ for s_ in fun.body if isinstance(s_, ast.Expr) and
               isinstance(s_.value, ast.Constant)]
        fun.body = doc + parse_stmts(
            'key = self._key(value)\n'
            'if key not in self._index:\n'
            '    return default\n'
            'return self._index[key][0]')
        return True
    add('twin-lookup-guarded-by-membership', 'twin', RLM, get_index_guarded)

    def _remove_node_in_place(body):
        def editor(tree):
            fun = find_func(tree, 'DepGraph.remove_node')
            start = next(i for i, s_ in enumerate(fun.body)
                         if isinstance(s_, ast.Assign) and
                         txt(s_.targets[0]) == 'tmp')
            end = next(i for i, s_ in enumerate(fun.body)
                       if isinstance(s_, ast.Delete) and
                       'self._nodes' in txt(s_))
            fun.body[start:end] = parse_stmts(body)
            return True
        return editor
    add('seed-incoming-edges-patched-in-the-wrong-order', 'mutant', DGM,
        _remove_node_in_place(
            'moved = self._edges[last]\n'
            'del self._edges[last]\n'
            'if i != last:\n'
            '    self._edges[i] = moved\n'
            'for vals in self._edges.values():\n'
            '    if last in vals:\n'
            '        vals.remove(last)\n'
            '        vals.add(i)\n'
            '    vals.discard(i)'), {'SWAP-SEM'},
        note='seed C01-r3-1: every edge into the node that was moved to '
             'slot i is discarded')
    add('seed-row-of-the-moved-node-not-renumbered', 'mutant', DGM,
        _remove_node_in_place(
            'del self._edges[i]\n'
            'moved = self._edges.pop(last, None)\n'
            'for vals in self._edges.values():\n'
            '    vals.discard(i)\n'
            '    if last in vals:\n'
            '        vals.remove(last)\n'
            '        vals.add(i)\n'
            'if moved is not None:\n'
            '    self._edges[i] = moved'), {'SWAP-SEM'},
        note='seed C16-1: the outgoing edges of the moved node keep the old '
             'numbers')
    add('twin-remove-node-patched-in-place', 'twin', DGM,
        _remove_node_in_place(
            'moved = self._edges[last]\n'
            'del self._edges[last]\n'
            'if i != last:\n'
            '    self._edges[i] = moved\n'
            'for vals in self._edges.values():\n'
            '    vals.discard(i)\n'
            '    if last in vals:\n'
            '        vals.remove(last)\n'
            '        vals.add(i)'),
        note='a correct single-pass rewrite: SWAP-TABLE is undecided, '
             'SWAP-SEM holds')

    return out


def variants(program):
    from ..variants import patterns as _pv
    return list(_variants(program)) + _pv.variants(program, ID)
