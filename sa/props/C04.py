'''C04 - re-running re-executes exactly the out-of-date tasks.'''
from ..rules import sched_rel, sched_worker, persist, patterns

ID = 'C04'
CLAIM = '''
Structural clauses decided, per run: REL-2 - every row of the decision table
that keeps a DONE task (returns None) constrains all deps to final states,
all hard deps to DONE, and its clock facts admit only (max end over ALL deps)
<= (task start), or an absent clock; REL-1 - a task is (re-)queued only when
all deps are final and hard deps DONE; REL-5 - a task that entered DONE is
re-queued on clock grounds only on the `gt` ordering, and keep rows perform no
write on the environment; REL-4 - the status returned by a row is the status
it stores (a DONE task held back as WAITING does not stay DONE in the
environment, where a later pass would keep it on clocks alone); PUB - clocks and payload are published before (or
atomically with) the DONE status so REL-2 never compares a stale end clock;
MERGE-DONE - entries read from disk enter the environment only through a
store guarded by status == DONE; TOPO - the master examines the tasks in a
topological order of the SAME graph that supplies `deps` to the decision, so
a DONE task is never kept on a dependency status the same pass resets.
CLOCK-SRC - the clocks handed to set_start_end_clock are readings of
time.time() (followed through locals and through the fields of helper objects
such as a Chrono): a perf_counter / monotonic reading has an origin that
changes with the process or the boot and cannot be compared across runs.
GRAPH-WHOLE - Scheduler.schedule hands the backend the job's own full and
hard graphs, not a copy from which nodes or edges were removed.
ENQ-INPUTS - no argument bound to the decision before the atomic region is
computed from the environment (no status / clock read hoisted out of it).
WRITE-ALL - write_env rewrites the entry of every task that has an output
directory: no skip decided on statuses, clocks or file times (a restored DONE
task the master turns SKIPPED gets no new clock).
STATUS-WRITERS - in the backends a task status is written only by the
decision function (REL rows), by the master loop in front of it (REL prelude
rows) and by the worker around Task.do (WRK): no other transition exists.
Not decided: sequences of runs beyond these per-run obligations; clock
monotonicity (time.time() is trusted).
'''
ASSUMPTIONS = ['time.time() is non-decreasing across the runs compared',
               'environments are carried over through read_env only']


def check(ctx):
    ctx.run(sched_rel.check_rel, {'REL-1', 'REL-2', 'REL-4', 'REL-5'})
    ctx.run(sched_worker.check_pub)
    ctx.run(persist.check_merge_done)
    ctx.run(persist.check_write_all)
    ctx.run(sched_rel.check_topo)
    ctx.run(sched_worker.check_clock_src)
    ctx.run(sched_rel.check_graph_whole)
    ctx.run(sched_rel.check_graph_rebound)
    ctx.run(sched_rel.check_decision_inputs)
    ctx.run(sched_rel.check_status_writers)
    ctx.run(patterns.check_patterns, ID)


from ..variants import sched as _v   # noqa: E402


def _variants(program):
    return _v.variants(program, ID)


def variants(program):
    from ..variants import patterns as _pv
    return list(_variants(program)) + _pv.variants(program, ID)
