'''C18 - diagnostic statistics count every task / test result exactly once.'''
import ast

from ..rules import diag, patterns
from ..astutil import txt, call_name
from ..mutate import (Variant, edit_module, find_func, replace_first,
                      remove_stmt, insert_stmt, parse_stmts, parse_expr)

ID = 'C18'
CLAIM = '''
Structural clauses decided (gavroche/diagnostics/stats.py): CLS-ONCE - for
each of the three per-item classification loops (TestStatsTasks.evaluate,
TestStatsTests.evaluate, TestStatsTestsByLabels._build_labels_lod) a
syntax-directed enumeration of ALL paths of one loop iteration (if / else,
continue, break, return, try, nested loops) shows that every path appends the
item to the classification exactly once, or appends nothing and delegates to
exactly one inner loop that satisfies the same rule; no path leaves the loop
early. CLS-KEY - a task is filed under its own 'status' entry; a result is
filed under SUCCESS on the true branch of its verdict and FAILURE on the
false branch (both branches assign, distinct outcomes); MISSING exactly on
the "'result' not in" branch. VERDICT-KEYS - the __bool__ of the two
key-set results is evaluated (three-valued) over the four cells {success key
present} x {another key present} and must be true on (present, none) and
false on the two cells with another key; the member named must be DONE /
SUCCESS; the by-labels verdict is all(oracles) with oracle OK == total.
COUNT-SHAPE - in the leaf of the label partition OK = |X & rok|,
KO = |X & rko|, total = |X| for the same X, rok / rko are forwarded unchanged
by the recursion and come from the SUCCESS / FAILURE entries of the _result
label (so OK + KO = total given CLS-KEY's exclusive labels).
ID-UNIQUE - the by-labels index registers each result under its position in
the complete list (enumerate from 0, not from a count of distinct label
values). CLS-READ - no function that touches a classification (summaries,
classification_counts, stats representers) reads the defaultdict with a key
that is not drawn from it (an inserting read changes the key-based verdict).
COUNT-SHAPE also understands the selection-parameter spelling of the label
recursion (ids narrowed by intersection at every level).
Not decided: that the recursive partition through the Index equals a naive
partition; the behaviour on empty inputs; uniqueness of names.
'''
ASSUMPTIONS = ['items of a task result list are visited by the loops found '
               '(no other code path fills the classification)']

MOD = diag.MOD


def check(ctx):
    ctx.run(diag.check_cls_once)
    ctx.run(diag.check_cls_key)
    ctx.run(diag.check_verdict_keys)
    ctx.run(diag.check_count_shape)
    ctx.run(diag.check_cls_read)
    ctx.run(diag.check_id_unique)
    ctx.run(patterns.check_patterns, ID)


def _variants(program):
    out = []

    def add(name, kind, editor, expect=None, quick=False, note=''):
        out.append(Variant(name, kind, edit_module(program, MOD, editor),
                           expect, quick, note))

    def drop_continue(tree):
        fun = find_func(tree, 'TestStatsTests.evaluate')
        return remove_stmt(fun, lambda s: isinstance(s, ast.Continue), nth=1)
    add('not-a-test-falls-through', 'mutant', drop_continue, {'CLS-ONCE'},
        quick=True, note='the F18 defect: NOT_A_TEST item classified twice')

    def drop_missing_continue(tree):
        fun = find_func(tree, 'TestStatsTests.evaluate')
        return remove_stmt(fun, lambda s: isinstance(s, ast.Continue), nth=0)
    add('missing-falls-through', 'mutant', drop_missing_continue,
        {'CLS-ONCE'})

    def break_on_missing(tree):
        fun = find_func(tree, 'TestStatsTests.evaluate')
        return replace_first(fun, lambda n: isinstance(n, ast.Continue),
                             lambda n: ast.Break())
    add('missing-result-stops-the-count', 'mutant', break_on_missing,
        {'CLS-ONCE'})

    def only_failures_listed(tree):
        fun = find_func(tree, 'TestStatsTests.evaluate')
        # append only in the else branch
        for node in ast.walk(fun):
            if isinstance(node, ast.If) and isinstance(node.test, ast.Name) \
                    and node.test.id == 'test_result':
                node.body = parse_stmts('pass')
                return True
        return False
    add('success-branch-binds-nothing', 'mutant', only_failures_listed,
        {'CLS-ONCE', 'CLS-KEY'},
        note='test_lst stale from the previous item: may still append, '
             'caught by the key rule')

    def swapped_outcomes(tree):
        fun = find_func(tree, 'TestStatsTests.evaluate')
        for node in ast.walk(fun):
            if isinstance(node, ast.If) and isinstance(node.test, ast.Name) \
                    and node.test.id == 'test_result':
                node.body, node.orelse = node.orelse, node.body
                return True
        return False
    add('verdict-polarity-swapped', 'mutant', swapped_outcomes, {'CLS-KEY'},
        quick=True)

    def labels_swapped(tree):
        fun = find_func(tree, 'TestStatsTestsByLabels._build_labels_lod')
        for node in ast.walk(fun):
            if isinstance(node, ast.If) and isinstance(node.test, ast.Name) \
                    and node.test.id == 'test_result':
                node.orelse = parse_stmts('pass')
                return True
        return False
    add('failure-label-not-assigned', 'mutant', labels_swapped, {'CLS-KEY'})

    def status_of_first(tree):
        fun = find_func(tree, 'TestStatsTasks.evaluate')
        return replace_first(
            fun, lambda n: isinstance(n, ast.Subscript) and isinstance(
                n.slice, ast.Constant) and n.slice.value == 'status',
            lambda n: parse_expr("self.task_results[0][1]['status']"))
    add('status-of-the-first-task', 'mutant', status_of_first, {'CLS-KEY'})

    def verdict_no_len(tree):
        fun = find_func(tree, 'TestResultStatsTests.__bool__')
        return replace_first(fun, lambda n: isinstance(n, ast.BoolOp),
                             lambda n: n.values[0])
    add('verdict-ignores-other-keys', 'mutant', verdict_no_len,
        {'VERDICT-KEYS'}, quick=True)

    def verdict_len_le2(tree):
        fun = find_func(tree, 'TestResultStatsTasks.__bool__')
        return replace_first(
            fun, lambda n: isinstance(n, ast.Compare) and isinstance(
                n.ops[0], ast.Eq),
            lambda n: ast.Compare(left=n.left, ops=[ast.LtE()],
                                  comparators=[ast.Constant(value=2)]))
    add('verdict-tolerates-one-other-key', 'mutant', verdict_len_le2,
        {'VERDICT-KEYS'})

    def verdict_wrong_member(tree):
        fun = find_func(tree, 'TestResultStatsTests.__bool__')
        return replace_first(
            fun, lambda n: isinstance(n, ast.Attribute) and n.attr ==
            'SUCCESS', lambda n: ast.Attribute(value=n.value,
                                               attr='MISSING', ctx=n.ctx))
    add('verdict-on-wrong-member', 'mutant', verdict_wrong_member,
        {'VERDICT-KEYS'})

    def any_oracle(tree):
        fun = find_func(tree, 'TestResultStatsTestsByLabels.__bool__')
        return replace_first(
            fun, lambda n: isinstance(n, ast.Name) and n.id == 'all',
            lambda n: ast.Name(id='any', ctx=ast.Load()))
    add('bylabels-any-oracle', 'mutant', any_oracle, {'VERDICT-KEYS'})

    def oracle_ko(tree):
        fun = find_func(tree, 'TestResultStatsTestsByLabels.oracles')
        return replace_first(
            fun, lambda n: isinstance(n, ast.Constant) and n.value == 'OK',
            lambda n: ast.Constant(value='KO'))
    add('oracle-compares-failures-with-total', 'mutant', oracle_ko,
        {'VERDICT-KEYS'})

    def swap_rok_rko(tree):
        fun = find_func(tree, 'TestStatsTestsByLabels._rloop_over_labels')
        for node in ast.walk(fun):
            if isinstance(node, ast.Call) and call_name(node) == \
                    '_rloop_over_labels':
                node.args[2], node.args[3] = node.args[3], node.args[2]
                return True
        return False
    add('recursion-swaps-ok-ko', 'mutant', swap_rok_rko, {'COUNT-SHAPE'},
        quick=True, note='only visible with two or more labels')

    def total_of_ok_ko(tree):
        fun = find_func(tree, 'TestStatsTestsByLabels._rloop_over_labels')
        for node in ast.walk(fun):
            if isinstance(node, ast.Dict):
                for idx, key in enumerate(node.keys):
                    if isinstance(key, ast.Constant) and key.value == 'KO':
                        node.values[idx] = parse_expr('len(labset - rok)')
                        return True
        return False
    add('ko-as-complement', 'twin', total_of_ok_ko,
        note='len(labset - rok): equivalent when every result is either OK '
             'or KO; rule must not alarm (undecided allowed)')

    def ko_all(tree):
        fun = find_func(tree, 'TestStatsTestsByLabels._rloop_over_labels')
        for node in ast.walk(fun):
            if isinstance(node, ast.Dict):
                for idx, key in enumerate(node.keys):
                    if isinstance(key, ast.Constant) and key.value == 'KO':
                        node.values[idx] = parse_expr('len(rko)')
                        return True
        return False
    add('ko-counts-all-failures', 'mutant', ko_all, {'COUNT-SHAPE'})

    def rko_success(tree):
        fun = find_func(tree, 'TestStatsTestsByLabels._stats_for_labels')
        return replace_first(
            fun, lambda n: isinstance(n, ast.Attribute) and n.attr ==
            'FAILURE', lambda n: ast.Attribute(value=n.value,
                                               attr='MISSING', ctx=n.ctx))
    add('rko-from-wrong-outcome', 'mutant', rko_success, {'COUNT-SHAPE'})

    def worst_status(tree):
        klass = find_func(tree, 'TestResultStatsTasks')
        klass.body.extend(parse_stmts(
            'def worst_status(self):\n'
            '    return max(status for status, items in '
            'self.classify.items() if items)\n'))
        fun = find_func(tree, 'TestResultStatsTasks.__bool__')
        return replace_first(
            fun, lambda n: isinstance(n, ast.Return),
            lambda n: ast.Return(value=parse_expr(
                'self.worst_status() == TaskStatus.DONE')))
    add('verdict-as-worst-status', 'mutant', worst_status, {'VERDICT-KEYS'},
        note='seeded C18-2: WAITING and PENDING sort below DONE: a summary '
             'with unfinished tasks is reported successful')

    def unfiltered_subindex(tree):
        fun = find_func(tree, 'TestStatsTestsByLabels._rloop_over_labels')
        return replace_first(
            fun, lambda n: isinstance(n, ast.Call) and txt(n) ==
            'index.keep_only(labset)',
            lambda n: parse_expr('index if len(index[label]) == 1 else '
                                 'index.keep_only(labset)'))
    add('single-valued-label-not-filtered', 'mutant', unfiltered_subindex,
        {'COUNT-SHAPE'}, note='seeded C18-1: results lacking the label are '
        'counted at the deeper levels')

    # ---- twins
    def elif_form(tree):
        fun = find_func(tree, 'TestStatsTests.evaluate')
        inner = [n for n in ast.walk(fun) if isinstance(n, ast.For)][1]
        inner.body = parse_stmts(
            'if not isinstance(test_result, TestResult):\n'
            '    status_dict[TestOutcome.NOT_A_TEST].append('
            'NameFingerprint(task_name))\n'
            'elif test_result:\n'
            '    status_dict[TestOutcome.SUCCESS].append(NameFingerprint('
            'test_result.test.name, fingerprint(test_result.test)))\n'
            'else:\n'
            '    status_dict[TestOutcome.FAILURE].append(NameFingerprint('
            'test_result.test.name, fingerprint(test_result.test)))\n')
        return True
    add('twin-elif-chain', 'twin', elif_form)

    def not_verdict(tree):
        fun = find_func(tree, 'TestStatsTests.evaluate')
        for node in ast.walk(fun):
            if isinstance(node, ast.If) and isinstance(node.test, ast.Name) \
                    and node.test.id == 'test_result':
                node.test = ast.UnaryOp(op=ast.Not(), operand=node.test)
                node.body, node.orelse = node.orelse, node.body
                return True
        return False
    add('twin-negated-verdict-test', 'twin', not_verdict)

    def bool_keys(tree):
        fun = find_func(tree, 'TestResultStatsTests.__bool__')
        return replace_first(
            fun, lambda n: isinstance(n, ast.BoolOp),
            lambda n: parse_expr('set(self.classify) == '
                                 '{TestOutcome.SUCCESS}'))
    add('twin-verdict-as-key-set', 'twin', bool_keys)

    def len_lt2(tree):
        fun = find_func(tree, 'TestResultStatsTasks.__bool__')
        return replace_first(
            fun, lambda n: isinstance(n, ast.Compare) and isinstance(
                n.ops[0], ast.Eq),
            lambda n: ast.Compare(left=n.left, ops=[ast.Lt()],
                                  comparators=[ast.Constant(value=2)]))
    add('twin-len-less-than-two', 'twin', len_lt2)

    def intersection_call(tree):
        fun = find_func(tree, 'TestStatsTestsByLabels._rloop_over_labels')
        ok = False
        for node in ast.walk(fun):
            if isinstance(node, ast.Dict):
                for idx, val in enumerate(node.values):
                    if isinstance(val, ast.Call) and isinstance(
                            val.args[0], ast.BinOp):
                        bino = val.args[0]
                        val.args[0] = ast.Call(func=ast.Attribute(
                            value=bino.left, attr='intersection',
                            ctx=ast.Load()), args=[bino.right], keywords=[])
                        ok = True
        return ok
    add('twin-intersection-method', 'twin', intersection_call)
    def _selection_recursion(passed):
        def editor(tree):
            fun = find_func(tree, 'TestStatsTestsByLabels._rloop_over_labels')
            doc = [s_ for s_ in fun.body if isinstance(s_, ast.Expr) and
                   isinstance(s_.value, ast.Constant)]
            fun.args.args.append(ast.arg(arg='ids'))
            fun.args.defaults.append(ast.Constant(value=None))
            fun.body = doc + parse_stmts(
                'label = labels[0]\n'
                'lres = []\n'
                'if label not in index:\n'
                '    return []\n'
                'for lab, labset in index.get(label, {}).items():\n'
                '    selected = labset if ids is None else labset & ids\n'
                '    if not selected:\n'
                '        continue\n'
                '    if len(labels) > 1:\n'
                '        lres.extend(self._rloop_over_labels(index, '
                f'labels[1:], rok, rko, plab=plab + (lab,), ids={passed}))\n'
                '    else:\n'
                "        lres.append({'labels': plab + (lab,), "
                "'OK': len(selected & rok), 'KO': len(selected & rko), "
                "'total': len(selected)})\n"
                'return lres')
            return True
        return editor
    add('seed-selection-of-previous-labels-dropped', 'mutant',
        _selection_recursion('labset'), {'COUNT-SHAPE'},
        note='seed C18-r2-2: from the third label on a result is counted in '
             'sibling rows')
    add('twin-selection-narrowed-by-intersection', 'twin',
        _selection_recursion('selected'),
        note='undecided is allowed, an alarm is not')

    def counts_index(tree):
        # seed C18-r2-1 (= the F14 defect): counting inserts the statuses
        fun = find_func(tree, 'classification_counts')
        return replace_first(
            fun, lambda n: isinstance(n, ast.Call) and call_name(n) == 'get'
            and txt(n.func.value) == 'classify',
            lambda n: ast.Subscript(value=n.func.value, slice=n.args[0],
                                    ctx=ast.Load()))
    add('seed-counting-inserts-unobserved-statuses', 'mutant', counts_index,
        {'CLS-READ'}, quick=True,
        note='an all-successful summary is False once it was tabulated')

    def shared_verdict(tree):
        # seed C18-r3-2: one verdict for both summaries; TaskStatus.DONE and
        # TestOutcome.NOT_A_TEST are the same integer
        klass = next(n for n in tree.body if isinstance(n, ast.ClassDef)
                     and n.name == 'TestResultStatsTests')
        klass.body = [n for n in klass.body if not (
            isinstance(n, ast.FunctionDef) and n.name == '__bool__')] or \
            [ast.Pass()]
        fun = find_func(tree, 'TestResultStatsTasks.__bool__')
        doc = [s_ for s_ in fun.body if isinstance(s_, ast.Expr) and
               isinstance(s_.value, ast.Constant)]
        fun.body = doc + parse_stmts(
            'observed = [status for status, items in self.classify.items() '
            'if items]\n'
            'return bool(observed) and all(status in (TaskStatus.DONE, '
            'TestOutcome.SUCCESS) for status in observed)')
        return True
    add('seed-one-verdict-for-tasks-and-tests', 'mutant', shared_verdict,
        {'VERDICT-KEYS'},
        note='a summary that saw only NOT_A_TEST items (== 3 == DONE) is '
             'reported successful')

    def ids_from_distinct_names(tree):
        # seed C18-r3-1 (reduced)
        fun = find_func(tree, 'TestStatsTestsByLabels._build_index')
        for node in ast.walk(fun):
            if isinstance(node, ast.For) and isinstance(
                    node.iter, ast.Call) and call_name(node.iter) == \
                    'enumerate':
                node.iter.keywords.append(ast.keyword(
                    arg='start', value=parse_expr(
                        "len(index['_test_name'])")))
                return True
        return False
    add('seed-ids-numbered-from-the-count-of-distinct-test-names', 'mutant',
        ids_from_distinct_names, {'ID-UNIQUE'})

    return out


def variants(program):
    from ..variants import patterns as _pv
    return list(_variants(program)) + _pv.variants(program, ID)
