'''C20 - a written report contains every section and result exactly once.'''
import ast

from ..rules import reportfs, extcmd, patterns
from ..astutil import txt, call_name
from ..mutate import (Variant, edit_module, find_func, replace_first,
                      remove_stmt, insert_stmt, parse_stmts, parse_expr)

ID = 'C20'
CLAIM = '''
Structural clauses decided (javert/rst.py): VALIDATE-FIRST - on every CFG
path of FormattedRst.write, a call that passes every section title of
tree_dict / text_dict to sanitize_filename precedes every filesystem effect
reachable from write (setup, ensure, open for writing, save; effects found
through the methods of the class). RESERVED - the name of the root page is
read from _write_rec (literal or class attribute) and a guard that raises on
a first-level title equal to it exists in the validator or at registration.
DUP-KEY - every CFG path to the registration of a sub-section
(tree_dict[tree].append(subtree)) passes the false edge of a membership test
of that key. PAGE-FLOW - section and result texts are filed under the key of
the section being formatted, the recursion passes the key it registered, the
writer writes text_dict[tree] to tree_to_path(tree) (whole chain of titles),
and the toc and the recursion over sub-pages range over the same list.
TOC-REL - a toc entry is the last two titles (page of a section lies one
directory below its parent's page). FIG-NAME - the image directive and the
writer use the same directory and the same file-name template of the same
fingerprint key; the file name of a page is sanitize_filename(title) with no
other rewriting of the title. REPORT-OWNS - FormattedRst copies the
dictionaries it is given (the Rst object clears its own in place).
SANITIZE / SAN-BODY (shared with C19) - the report root
directory is derived from the sanitized task name and the sanitizer is
identity-or-raise.
PAGE-SUFFIX - the '.rst' extension is appended to the page name, never
substituted with with_suffix / splitext / .stem (titles contain dots).
FIG-ALL - both figure-writing branches of FormattedRst.write (sequential
loop, Pool.map) range over the full list built from self.plots, and a
chunksize, if given, is provably >= 1. HEADER-DEPTH - every header is asked
at the depth of the section being formatted (len(tree)), never deeper.
NO-REMOVE - the writer (rst.py) never removes or moves entries of the report
directory (section directories, figures and .static share one name space).
Not decided: page content, validity of the toctree for Sphinx, figure
rendering, depth limits.
'''
ASSUMPTIONS = ['a FormattedRst is built by Rst.format_report (tree_dict and '
               'text_dict filled by format_report_rec)']

RST = 'valjean.javert.rst'


def check(ctx):
    ctx.run(reportfs.check_validate_first)
    ctx.run(reportfs.check_reserved)
    ctx.run(reportfs.check_dup_key)
    ctx.run(reportfs.check_page_flow)
    ctx.run(reportfs.check_fig_name)
    ctx.run(reportfs.check_report_owns)
    ctx.run(reportfs.check_fig_all)
    ctx.run(reportfs.check_header_depth)
    ctx.run(reportfs.check_clear_complete)
    ctx.run(reportfs.check_page_suffix)
    ctx.run(extcmd.check_sanitize, scope=('report-root',), floor=1)
    ctx.run(extcmd.check_sanitizer_body)
    ctx.run(reportfs.check_no_remove)
    ctx.run(patterns.check_patterns, ID)


def _variants(program):
    out = []

    def add(name, kind, editor, expect=None, quick=False, note='',
            mod=RST):
        out.append(Variant(name, kind, edit_module(program, mod, editor),
                           expect, quick, note))

    def stale_cleanup(tree):
        fun = find_func(tree, 'FormattedRst._write_rec')
        tree.body.insert(next(i for i, n in enumerate(tree.body)
                              if isinstance(n, (ast.Import,
                                                ast.ImportFrom))),
                         parse_stmts('import shutil')[0])
        return insert_stmt(
            fun, lambda s: isinstance(s, ast.Assign) and txt(
                s.targets[0]) == 'subtrees',
            parse_stmts('if not subtrees and tree_path.is_dir():\n'
                        '    shutil.rmtree(tree_path)'))
    add('seed-stale-section-directories-removed-while-writing', 'mutant',
        stale_cleanup, {'NO-REMOVE'},
        note='seed C20-r4-1: a leaf section titled "figures" makes the '
             'writer delete the directory of the plots')

    def lazy_validation(tree):
        fun = find_func(tree, 'FormattedRst.write')
        return remove_stmt(fun, lambda s: isinstance(s, ast.Expr) and
                           'check_trees' in txt(s))
    add('titles-validated-while-writing', 'mutant', lazy_validation,
        {'VALIDATE-FIRST', 'RESERVED'}, quick=True, note='the F20a defect')

    def validate_after_setup(tree):
        fun = find_func(tree, 'FormattedRst.write')
        idx = [i for i, s in enumerate(fun.body) if 'check_trees' in
               txt(s)][0]
        stmt = fun.body.pop(idx)
        jdx = [i for i, s in enumerate(fun.body) if 'self.setup' in
               txt(s)][0]
        fun.body.insert(jdx + 1, stmt)
        return True
    add('validation-after-setup', 'mutant', validate_after_setup,
        {'VALIDATE-FIRST'})

    def validate_only_if_exists(tree):
        fun = find_func(tree, 'FormattedRst.write')
        idx = [i for i, s in enumerate(fun.body) if 'check_trees' in
               txt(s)][0]
        stmt = fun.body[idx]
        fun.body[idx] = ast.If(test=parse_expr('path.exists()'),
                               body=[stmt], orelse=[])
        return True
    add('validation-only-for-existing-directory', 'mutant',
        validate_only_if_exists, {'VALIDATE-FIRST'},
        note='a path without validation remains')

    def no_reserved(tree):
        fun = find_func(tree, 'FormattedRst.check_trees')
        return remove_stmt(fun, lambda s: isinstance(s, ast.If) and
                           'ROOT_PAGE' in txt(s.test))
    add('root-page-name-not-reserved', 'mutant', no_reserved, {'RESERVED'},
        quick=True, note='the F20b defect')

    def reserved_other_literal(tree):
        fun = find_func(tree, 'FormattedRst._write_rec')
        return replace_first(
            fun, lambda n: isinstance(n, ast.Attribute) and n.attr ==
            'ROOT_PAGE', lambda n: ast.Constant(value='contents'))
    add('root-page-renamed-guard-not', 'mutant', reserved_other_literal,
        {'RESERVED'}, note='two cooperating sites: the page is renamed, the '
        'guard still protects the old name')

    def no_dup_check(tree):
        fun = find_func(tree, 'Rst.format_report_rec')
        return remove_stmt(fun, lambda s: isinstance(s, ast.If) and
                           'in self.tree_dict[tree]' in txt(s.test))
    add('duplicate-titles-accepted', 'mutant', no_dup_check, {'DUP-KEY'},
        quick=True, note='the F20c defect')

    def dup_check_wrong_dict(tree):
        fun = find_func(tree, 'Rst.format_report_rec')
        return replace_first(
            fun, lambda n: isinstance(n, ast.Compare) and
            'in self.tree_dict[tree]' in txt(n),
            lambda n: parse_expr('stuff.title in tree'))
    add('duplicate-test-on-ancestors', 'mutant', dup_check_wrong_dict,
        {'DUP-KEY'}, note='tests the ancestors instead of the siblings')

    def text_under_parent(tree):
        fun = find_func(tree, 'Rst.format_report_rec')
        return replace_first(
            fun, lambda n: isinstance(n, ast.Subscript) and txt(n) ==
            'self.text_dict[tree]' and isinstance(n.ctx, ast.Load),
            lambda n: parse_expr('self.text_dict[tree[:-1]]'), nth=1)
    add('result-filed-under-parent-section', 'mutant', text_under_parent,
        {'PAGE-FLOW'})

    def toc_last_only(tree):
        fun = find_func(tree, 'FormattedRst.toc')
        return replace_first(
            fun, lambda n: isinstance(n, ast.Subscript) and isinstance(
                n.slice, ast.Slice),
            lambda n: parse_expr('subtree[-1:]'))
    add('toc-entry-last-title-only', 'mutant', toc_last_only, {'TOC-REL'},
        quick=True, note='links break from depth two on')

    def toc_other_list(tree):
        fun = find_func(tree, 'FormattedRst._write_rec')
        return replace_first(
            fun, lambda n: isinstance(n, ast.For) and txt(n.iter) ==
            'subtrees', lambda n: ast.For(
                target=n.target, iter=parse_expr('subtrees[:-1]'),
                body=n.body, orelse=[], lineno=n.lineno))
    add('last-subsection-not-written', 'mutant', toc_other_list,
        {'PAGE-FLOW'})

    def fig_ext(tree):
        fun = find_func(tree, 'RstPlot.filename')
        return replace_first(
            fun, lambda n: isinstance(n, ast.Constant) and n.value ==
            '.png', lambda n: ast.Constant(value='.svg'))
    add('figure-extension-differs', 'mutant', fig_ext, {'FIG-NAME'},
        quick=True)

    def fig_dir(tree):
        fun = find_func(tree, 'FormattedRst.write')
        return replace_first(
            fun, lambda n: isinstance(n, ast.Constant) and n.value ==
            'figures', lambda n: ast.Constant(value='plots'))
    add('figures-written-elsewhere', 'mutant', fig_dir, {'FIG-NAME'})

    def raw_report_root(tree):
        fun = find_func(tree, 'RstTestReportTask.__init__')
        return replace_first(
            fun, lambda n: isinstance(n, ast.Call) and call_name(n) ==
            'sanitize_filename', lambda n: n.args[0])
    add('report-directory-raw-name', 'mutant', raw_report_root,
        {'SANITIZE'})

    def titles_stripped(tree):
        fun = find_func(tree, 'FormattedRst.tree_to_path')
        return replace_first(
            fun, lambda n: isinstance(n, ast.Call) and txt(n) ==
            'sanitize_filename(node)',
            lambda n: parse_expr('sanitize_filename(node.strip())'))
    add('page-names-are-trimmed-titles', 'mutant', titles_stripped,
        {'PAGE-FLOW'}, note="seeded C20-1: 'Case 1' and 'Case 1 ' share a "
        "page, 'index ' overwrites the root page, ' .. ' is rejected after "
        "files were written - the guards look at the raw titles")

    def dicts_by_reference(tree):
        fun = find_func(tree, 'FormattedRst.__init__')
        ok = False
        for node in ast.walk(fun):
            if isinstance(node, ast.Assign) and isinstance(
                    node.value, ast.Call) and call_name(node.value) == \
                    'copy' and txt(node.targets[0]) in (
                        'self.tree_dict', 'self.text_dict', 'self.plots'):
                node.value = node.value.func.value
                ok = True
        return ok
    add('formatted-report-aliases-the-formatter-state', 'mutant',
        dicts_by_reference, {'REPORT-OWNS'},
        note='seeded C20-2: format_report(A); format_report(B); '
             'A.write() writes the pages of B')

    def subtrees_get(tree):
        fun = find_func(tree, 'FormattedRst._write_rec')
        return replace_first(
            fun, lambda n: isinstance(n, ast.Subscript) and txt(n) ==
            'self.tree_dict[tree]',
            lambda n: parse_expr('self.tree_dict.get(tree, [])'))
    add('twin-subtrees-with-get', 'twin', subtrees_get,
        note='a false alarm of an earlier version of PAGE-FLOW')

    # ---- twins
    def inline_validation(tree):
        fun = find_func(tree, 'FormattedRst.write')
        idx = [i for i, s in enumerate(fun.body) if 'check_trees' in
               txt(s)][0]
        fun.body[idx:idx + 1] = parse_stmts(
            'self.check_trees()\nLOGGER.debug("titles are fine")')
        return True
    add('twin-log-after-validation', 'twin', inline_validation)

    def not_in_form(tree):
        fun = find_func(tree, 'Rst.format_report_rec')
        for node in ast.walk(fun):
            if isinstance(node, ast.If) and 'in self.tree_dict[tree]' in \
                    txt(node.test) and isinstance(node.test, ast.Compare):
                node.test = ast.UnaryOp(op=ast.Not(), operand=ast.Compare(
                    left=node.test.left, ops=[ast.NotIn()],
                    comparators=node.test.comparators))
                return True
        return False
    add('twin-double-negation-membership', 'twin', not_in_form)

    def literal_root(tree):
        klass = find_func(tree, 'FormattedRst')
        ok = False
        for node in ast.walk(klass):
            for fld, val in ast.iter_fields(node):
                if isinstance(val, ast.Attribute) and val.attr == \
                        'ROOT_PAGE':
                    setattr(node, fld, ast.Constant(value='index'))
                    ok = True
                elif isinstance(val, list):
                    for idx, item in enumerate(val):
                        if isinstance(item, ast.Attribute) and \
                                item.attr == 'ROOT_PAGE':
                            val[idx] = ast.Constant(value='index')
                            ok = True
        return ok
    add('twin-root-page-literal', 'twin', literal_root)
    def dict_ctor_copies(tree):
        fun = find_func(tree, 'FormattedRst.__init__')
        ok = False
        for node in ast.walk(fun):
            if isinstance(node, ast.Assign) and isinstance(
                    node.value, ast.Call) and call_name(node.value) == \
                    'copy' and txt(node.targets[0]) in (
                        'self.tree_dict', 'self.text_dict'):
                node.value = ast.Call(func=ast.Name(id='dict',
                                                    ctx=ast.Load()),
                                      args=[node.value.func.value],
                                      keywords=[])
                ok = True
        return ok
    add('twin-dictionaries-copied-with-dict', 'twin', dict_ctor_copies)
    def _chunked(expr):
        def editor(tree):
            fun = find_func(tree, 'FormattedRst.write')
            return replace_first(
                fun, lambda n: isinstance(n, ast.Call) and call_name(n) ==
                'map' and 'writer' in txt(n),
                lambda n: ast.Call(func=n.func, args=n.args, keywords=[
                    ast.keyword(arg='chunksize', value=parse_expr(expr))]))
        return editor
    add('seed-one-batch-of-figures-per-worker', 'mutant',
        _chunked('len(items) // self.n_workers'), {'FIG-ALL'},
        note='seed C20-r2-1: fewer figures than workers -> chunksize 0 -> '
             'no figure written')
    add('twin-batches-of-at-least-one-figure', 'twin',
        _chunked('max(1, len(items) // self.n_workers)'))

    def result_headers(tree):
        # seed C20-r2-2
        rec = find_func(tree, 'Rst.format_report_rec')
        done = replace_first(
            rec, lambda n: isinstance(n, ast.Call) and txt(n) ==
            'self.format_result(stuff)',
            lambda n: parse_expr(
                'self.format_result(stuff, depth=len(tree) + 1)'))
        fun = find_func(tree, 'Rst.format_result')
        fun.args.kwonlyargs.append(ast.arg(arg='depth'))
        fun.args.kw_defaults.append(ast.Constant(value=1))
        pos = 1 if isinstance(fun.body[0], ast.Expr) else 0
        fun.body.insert(pos, parse_stmts(
            'head = self.formatter.header(result.test.name, depth)')[0])
        return done
    add('seed-result-headers-one-level-below-the-section', 'mutant',
        result_headers, {'HEADER-DEPTH'},
        note='a result in a fifth-level section makes format_report raise')

    def page_with_suffix(tree):
        # seed C20-r3-1
        fun = find_func(tree, 'FormattedRst._write_rec')
        return replace_first(
            fun, lambda n: isinstance(n, ast.Call) and call_name(n) ==
            'with_name',
            lambda n: ast.Call(func=ast.Attribute(
                value=n.func.value, attr='with_suffix', ctx=ast.Load()),
                args=[ast.Constant(value='.rst')], keywords=[]))
    add('seed-page-extension-substituted-with-with-suffix', 'mutant',
        page_with_suffix, {'PAGE-SUFFIX'},
        note="'Fe56, 0.1 MeV' and 'Fe56, 0.5 MeV' -> 'Fe56, 0.rst'")

    return out


def variants(program):
    from ..variants import patterns as _pv
    return list(_variants(program)) + _pv.variants(program, ID)
