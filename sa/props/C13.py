'''C13 - looking at a test result never changes its verdict or its inputs.'''
import ast

from ..rules import purity, patterns
from ..astutil import txt, call_name
from ..mutate import (Variant, edit_module, find_func, replace_first,
                      remove_stmt, insert_stmt, parse_stmts, parse_expr)

ID = 'C13'
CLAIM = '''
Structural clauses decided: PURE - for every read-only entry point found by
query (every method except __init__ of every TestResult subclass; evaluate /
data / other methods of every Test subclass; every javert function or method
with a parameter named result / results / res / test_result, i.e. all table
and plot representers, the Representer / Representation dispatchers,
post-treatments and Rst.format_result; the readers copy / data / fingerprint
/ __eq__ / __repr__ / __getitem__ of the templates; the RstFormatter /
RstTable / RstPlot / RstText formatters; fingerprint(); classification_counts)
an inter-procedural ownership and write-effect analysis (sa/effects.py:
flow-sensitive alias sets on the CFG of each function, values = "n fresh
layers above an object d dereferences below parameter r", field-sensitive
summaries of resolved repo callees, nested functions analysed with their
closure) finds no store, in-place operator, del, mutating method call, numpy
in-place function or out= argument whose target can be an object reachable
from the protected parameter (the result with its test and datasets, the
template, the fingerprinted object). PURE-DD - a subscript READ of a value
typed defaultdict (typing: defaultdict(...) -> local -> constructor argument
-> field, propagated through call sites) is an implicit insertion; keys drawn
from the mapping itself or guarded by a membership test are accepted, literal
/ enum-ranging keys are violations, other keys are reported undecided.
DATA-INPLACE - access-path analysis of every valjean.javert function: no
in-place modification (sort / fill / put / subscript store / augmented
assignment / out= / numpy in-place function / replacement of the field) of an
object whose path from a parameter ends in a data field of a template (bins,
values, errors, columns - the live arrays of the datasets), through local
aliases, containers filled with append, callees of the package and receivers
narrowed by isinstance; this reaches the post-treatments and plot representers
that are only called through getattr / self.post dispatch. Suppressed when
every caller in the package passes a template it has just built.
ITER-STORE - no one-shot iterator (reversed, map, zip, generator expression)
is handed to a Test constructor for a parameter the class stores.
DET - no evaluate() implementation reaches (call graph, depth 3) a clock,
random source or process identity.
Not decided: effects hidden in library calls that are not in the mutator
table; pickling round trips; bit-for-bit float reproducibility; objects
reached through dynamic dispatch (getattr) - each dispatch target is itself
an entry point.
'''
ASSUMPTIONS = [
    'library functions and methods that are not in the mutator / view tables '
    'of sa/effects.py neither modify their arguments nor return views of '
    'them (numpy arithmetic, comparisons, constructors)',
    'a store into a new private attribute of the result object itself '
    '(memoisation) is reported undecided, not as a violation',
]
TECHNIQUE = ('static analysis: inter-procedural ownership / write-effect '
             'dataflow over per-function CFGs, defaultdict typing '
             'propagation, call-graph reachability for non-determinism')

STATS = 'valjean.gavroche.diagnostics.stats'
TREPR = 'valjean.javert.table_repr'
PREPR = 'valjean.javert.plot_repr'
STU = 'valjean.gavroche.stat_tests.student'
TESTM = 'valjean.gavroche.test'


def check(ctx):
    analyzer = purity.make_analyzer(ctx.program,
                                    max_depth=6 if ctx.tier == 'thorough'
                                    else 4)
    ctx.run(purity.check_pure, analyzer)
    ctx.run(purity.check_data_inplace)
    ctx.run(purity.check_iter_store)
    ctx.run(purity.check_det, depth=5 if ctx.tier == 'thorough' else 3)
    ctx.run(patterns.check_patterns, ID)


def _body_start(fun):
    '''Index of the first statement after the docstring.'''
    if fun.body and isinstance(fun.body[0], ast.Expr) and isinstance(
            fun.body[0].value, ast.Constant):
        return 1
    return 0


def _prepend(qual, text):
    def editor(tree):
        fun = find_func(tree, qual)
        idx = _body_start(fun)
        fun.body[idx:idx] = parse_stmts(text)
        return True
    return editor


def _variants(program):
    out = []

    def add(name, kind, mod, editor, expect=None, quick=False, note=''):
        out.append(Variant(name, kind, edit_module(program, mod, editor),
                           expect, quick, note))

    def dd_index(tree):
        fun = find_func(tree, 'classification_counts')
        return replace_first(
            fun, lambda n: isinstance(n, ast.Call) and call_name(n) == 'get'
            and txt(n.func.value) == 'classify',
            lambda n: ast.Subscript(value=n.func.value, slice=n.args[0],
                                    ctx=ast.Load()))
    add('counts-index-the-defaultdict', 'mutant', STATS, dd_index,
        {'PURE-DD'}, quick=True, note='the F14 defect')

    add('representer-writes-dataset', 'mutant', TREPR,
        _prepend('repr_equal', 'result.test.dsref.value[0] = 0'),
        {'PURE'}, quick=True, note='canary of the expected-zero rule')

    add('representer-masks-nan-in-place', 'mutant', TREPR,
        _prepend('repr_student',
                 'for tstud in result.tstud:\n'
                 '    tstud[np.isnan(tstud)] = 0.0'),
        {'PURE'}, note='cleans the statistic in place before tabulating')

    def helper_site(tree):
        fun = find_func(tree, 'repr_approx_equal')
        idx = _body_start(fun)
        fun.body[idx:idx] = parse_stmts(
            'values = _finite(result.test.dsref.value)')
        tree.body.extend(parse_stmts(
            'def _finite(arr):\n'
            '    arr[~np.isfinite(arr)] = 0.0\n'
            '    return arr\n'))
        return True
    add('helper-cleans-shared-array', 'mutant', TREPR, helper_site,
        {'PURE'}, quick=True,
        note='two cooperating sites: the helper looks local, the caller '
             'passes the dataset array itself')

    add('oracles-out-argument', 'mutant', STU,
        _prepend('TestResultStudent.oracles',
                 'for tstud in self.tstud:\n'
                 '    np.fabs(tstud, out=tstud)'),
        {'PURE'}, note='|t| computed in place')

    add('bool-sorts-pvalues', 'mutant', STU,
        _prepend('TestResultStudent.__bool__', 'self.pvalue.sort()'),
        {'PURE'})

    add('verdict-cached-in-known-field', 'mutant', TESTM,
        _prepend('TestResultEqual.__bool__',
                 'self.equal = [np.all(eq) for eq in self.equal]'),
        {'PURE'}, note='overwrites a recorded statistic')

    def trim_sorts(tree):
        # seed C13-r2-1: the post-treatment sorts the live bins in place
        fun = find_func(tree, 'trim_range')
        for node in ast.walk(fun):
            if isinstance(node, ast.Assign) and txt(node.targets[0]) == \
                    'binw':
                node.value = parse_expr('np.ediff1d(nbins)')
                for par in ast.walk(fun):
                    for fld in ('body', 'orelse'):
                        blk = getattr(par, fld, None)
                        if isinstance(blk, list) and node in blk:
                            blk.insert(blk.index(node), parse_stmts(
                                'if nbins[0] > nbins[-1]:\n'
                                '    nbins.sort()')[0])
                            return True
        return False
    add('seed-post-treatment-sorts-live-bins', 'mutant', PREPR, trim_sorts,
        {'DATA-INPLACE'}, quick=True,
        note='reached through getattr / self.post dispatch only')

    def trim_sorted_copy(tree):
        fun = find_func(tree, 'trim_range')
        return replace_first(
            fun, lambda n: isinstance(n, ast.Assign) and txt(n) ==
            'nbins = lbins',
            lambda n: parse_stmts('nbins = np.sort(lbins)')[0])
    add('twin-post-treatment-sorts-a-copy', 'twin', PREPR, trim_sorted_copy)

    def rst_merges_in_place(tree):
        # seed C13-r2-3: live templates of an external test joined in place
        fun = find_func(tree, 'Rst.format_result')
        done = replace_first(
            fun, lambda n: isinstance(n, ast.For) and txt(n.iter) ==
            'res_repr',
            lambda n: ast.For(target=n.target, iter=parse_expr(
                '_merge_tables(res_repr)'), body=n.body, orelse=n.orelse,
                lineno=n.lineno))
        tree.body.extend(parse_stmts(
            'def _merge_tables(templates):\n'
            '    from .templates import TableTemplate\n'
            '    merged = []\n'
            '    for template in templates:\n'
            '        if (merged and isinstance(template, TableTemplate)\n'
            '                and isinstance(merged[-1], TableTemplate)\n'
            '                and merged[-1].headers == template.headers):\n'
            '            merged[-1].join(template)\n'
            '        else:\n'
            '            merged.append(template)\n'
            '    return merged\n'))
        return done
    add('seed-rst-joins-live-tables-in-place', 'mutant',
        'valjean.javert.rst', rst_merges_in_place, {'DATA-INPLACE'})

    def rst_merges_copies(tree):
        fun = find_func(tree, 'Rst.format_result')
        done = replace_first(
            fun, lambda n: isinstance(n, ast.For) and txt(n.iter) ==
            'res_repr',
            lambda n: ast.For(target=n.target, iter=parse_expr(
                '_merge_tables(res_repr)'), body=n.body, orelse=n.orelse,
                lineno=n.lineno))
        tree.body.extend(parse_stmts(
            'def _merge_tables(templates):\n'
            '    from .templates import TableTemplate\n'
            '    merged = []\n'
            '    for template in templates:\n'
            '        if (merged and isinstance(template, TableTemplate)\n'
            '                and isinstance(merged[-1], TableTemplate)\n'
            '                and merged[-1].headers == template.headers):\n'
            '            both = merged.pop().copy()\n'
            '            both.join(template)\n'
            '            merged.append(both)\n'
            '        else:\n'
            '            merged.append(template)\n'
            '    return merged\n'))
        return done
    add('twin-rst-joins-copies-of-tables', 'twin', 'valjean.javert.rst',
        rst_merges_copies)

    def data_zeroes_masked(tree):
        # seed C13-r2-2: fingerprinting writes through a view of the array
        fun = find_func(tree, 'Dataset.data')
        idx = _body_start(fun)
        fun.body[idx:idx] = parse_stmts(
            'if isinstance(self.value, np.ma.MaskedArray):\n'
            '    raw = np.ma.getdata(self.value)\n'
            '    raw[np.ma.getmaskarray(self.value)] = 0')
        return True
    add('seed-fingerprint-zeroes-masked-entries', 'mutant',
        'valjean.eponine.dataset', data_zeroes_masked, {'PURE'})

    add('plot-representer-pops-classification', 'mutant', PREPR,
        _prepend('repr_testresultstats',
                 'result.classify.pop(status_ok, None)'), {'PURE'})

    def squeeze_alias(tree):
        fun = find_func(tree, 'repr_equal')
        idx = _body_start(fun)
        fun.body[idx:idx] = parse_stmts(
            'dsref = result.test.dsref\n'
            'dsref.value = dsref.value.squeeze()')
        return True
    add('representer-reshapes-dataset', 'mutant', TREPR, squeeze_alias,
        {'PURE'})

    add('evaluate-reads-clock', 'mutant', TESTM,
        _prepend('TestEqual.evaluate',
                 'import time\nstamp = time.time()'), {'DET'}, quick=True)

    add('evaluate-shuffles', 'mutant', STU,
        _prepend('TestStudent.evaluate',
                 'order = np.random.permutation(len(self.datasets))'),
        {'DET'})

    add('fingerprint-consumes-data', 'mutant', 'valjean.fingerprint',
        _prepend('fingerprint', 'obj.__dict__.pop("_fingerprint", None)'),
        {'PURE'})

    # ---- twins: behaviour preserving, must stay silent
    add('twin-copy-then-write', 'twin', TREPR,
        _prepend('repr_student',
                 'cleaned = [tstud.copy() for tstud in result.tstud]\n'
                 'for tstud in cleaned:\n'
                 '    tstud[np.isnan(tstud)] = 0.0'))

    add('twin-local-defaultdict', 'twin', TREPR,
        _prepend('repr_testresultstats',
                 'from collections import defaultdict\n'
                 'seen = defaultdict(list)\n'
                 'seen["x"].append(1)\n'
                 'n_seen = len(seen["y"])'))

    add('twin-fresh-array-arithmetic', 'twin', TREPR,
        _prepend('repr_equal',
                 'delta = result.test.dsref.value - 1.0\n'
                 'delta[0] = 0.0\n'
                 'delta += 1.0'))

    def guarded_dd(tree):
        fun = find_func(tree, 'classification_counts')
        return replace_first(
            fun, lambda n: isinstance(n, ast.Call) and call_name(n) == 'get'
            and txt(n.func.value) == 'classify',
            lambda n: parse_expr('classify[status] if status in classify '
                                 'else ()'))
    add('twin-guarded-defaultdict-read', 'twin', STATS, guarded_dd)

    add('twin-verdict-memoised', 'twin', TESTM,
        _prepend('TestResultEqual.__bool__',
                 'self._verdict_cache = None'),
        note='new private attribute: undecided, never an alarm')
    add('seed-task-results-stored-as-a-one-shot-iterator', 'mutant', STATS,
        lambda tree: replace_first(
            find_func(tree, 'test_stats'),
            lambda n: isinstance(n, ast.keyword) and n.arg ==
            'task_results' and isinstance(n.value, ast.Name),
            lambda n: ast.keyword(arg='task_results', value=parse_expr(
                'reversed(task_results)'))),
        {'ITER-STORE'},
        note='seed C13-r3-2: the second evaluate() sees no task at all')

    return out


def variants(program):
    from ..variants import patterns as _pv
    return list(_variants(program)) + _pv.variants(program, ID)
