'''C08 - dataset arithmetic.'''
from ..rules import dataset, patterns
from ..variants import stats as _v

ID = 'C08'
CLAIM = '''
Structural clauses decided: DS-SIGN - sign analysis ({nonneg, any}) of the
error expression of every Dataset(...) built by a Dataset method, with
self.error / other.error non-negative and a non-dataset operand of unknown
sign: the error must be non-negative; QUAD - the dataset-dataset error
expressions, normalised to multisets of factors under the squares, are
exactly the first-order uncorrelated formulas of + - * /; DS-SHAPE - in the
constructor the stores of value/error/bins are reached only through the
shape-equality test and (bins given) the per-dimension N-or-N+1 test;
DS-LEFT - results carry the bins and name of the left operand; DS-PURE - no
method other than __init__ writes into self, other, or aliases of their
fields; DS-COPY - copy() hands deep-fresh value, error and bin arrays to the
constructor.
OP-DIRECT - the value of `a op b` is `a.value op b[.value]` (no delegation to
another operator); DS-PURE has a second, inter-procedural pass (sa/effects.py
with the numpy.ma copy=False model). DS-SCALE - for a number / array factor the error is computed as e * |k|
(e / |k|), not through the quadrature formula with a zero error.
DS-CTOR - no result of the number / array
branch of an operator is allocated with __new__ (only __init__ refuses a value
broadcast to another shape than error and bins); helpers that merely forward to
Dataset(...) are inlined before the rules run.
Not decided: element-wise numeric equality with the plain numpy operations.
'''
ASSUMPTIONS = ['numpy functions outside the mutator table neither mutate '
               'their arguments nor return views that are later written']


def check(ctx):
    ctx.run(dataset.check_ds_sign)
    ctx.run(dataset.check_quad)
    ctx.run(dataset.check_ds_shape)
    ctx.run(dataset.check_ds_left)
    ctx.run(dataset.check_ds_pure)
    ctx.run(dataset.check_ds_copy)
    ctx.run(dataset.check_op_direct)
    ctx.run(dataset.check_ds_ctor)
    ctx.run(dataset.check_ds_scale)
    ctx.run(patterns.check_patterns, ID)


def _variants(program):
    return _v.variants(program, ID)


def variants(program):
    from ..variants import patterns as _pv
    return list(_variants(program)) + _pv.variants(program, ID)
