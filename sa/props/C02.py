'''C02 - run outcome depends on the graph and task results only.'''
from ..rules import sched_rel, sched_worker, patterns

ID = 'C02'
CLAIM = '''
Structural clauses decided: the scheduler's decision table (REL-1: PENDING
only when all deps are final and all hard deps DONE; REL-3: SKIPPED only with
a failed/skipped HARD dependency; REL-4: WAITING leaves the task WAITING),
the dispatch on it (ENQ: put exactly on PENDING, kept exactly on WAITING,
decision under atomically) and the worker's result mapping, by path
enumeration of one worker iteration with a taint/validation domain (WRK-2:
every path writes a status; the value is a TaskStatus constant or was
validated; failed-validation paths never write DONE; do() once per dequeue;
WRK-1: no exception leaves the iteration, task_done exactly once). REL-2: a
DONE task is kept only when no hard dependency failed or was skipped. A status
validated before the rest of the result failed validation must not be written;
raw writes of the worker into the environment sit under the lock (LOCK).
GRAPH-WHOLE - the graphs that supply the dependencies to the decision are
the job's own, in the scheduler and inside the backend (never re-bound to a
pruned / transitively reduced copy).
BACKEND-STATELESS - an attribute of the backend filled while scheduling is
reset by execute_tasks (nothing of one run decides in the next).
ENQ-INPUTS - no argument bound to the decision before the atomic region is
computed from the environment (no status / clock read hoisted out of it).
DO-ONCE - <task>.do(env, config) occurs at one site per backend function,
not inside a loop that does not take a new task (no retry: a task runs once
and the outcome reported is that of its only execution).
STATUS-WRITERS - in the backends a task status is written only by the
decision function (REL rows), by the master loop in front of it (REL prelude
rows) and by the worker around Task.do (WRK): no other transition exists.
Not decided: equality of the final status map across interleavings as such
(it follows from these rules by argument, no rule computes it).
'''
ASSUMPTIONS = [
    'may-raise model of the worker iteration: Task.do (anything), unpacking '
    '/ subscripting / attribute use of a value derived from its result, '
    'TaskStatus(x) conversion, repo callees that dereference such a value '
    'without isinstance test; logging, time, queue and condition primitives '
    'are trusted not to raise',
]


def check(ctx):
    ctx.run(sched_rel.check_rel, {'REL-1', 'REL-2', 'REL-3', 'REL-4'})
    ctx.run(sched_rel.check_enq)
    shared = ctx.run(sched_worker.analyse_worker)
    if shared is not None:
        ctx.run(sched_worker.check_wrk2, shared)
        ctx.run(sched_worker.check_wrk1, shared)
        ctx.run(sched_worker.check_raw_lock, shared)
    ctx.run(sched_rel.check_graph_whole)
    ctx.run(sched_rel.check_graph_rebound)
    ctx.run(sched_rel.check_decision_inputs)
    ctx.run(sched_worker.check_backend_stateless)
    ctx.run(sched_rel.check_status_writers)
    ctx.run(sched_worker.check_do_once)
    ctx.run(patterns.check_patterns, ID)


from ..variants import sched as _v   # noqa: E402


def _variants(program):
    return _v.variants(program, ID)


def variants(program):
    from ..variants import patterns as _pv
    return list(_variants(program)) + _pv.variants(program, ID)
