'''C03 - scheduling terminates and leaves no worker behind.'''
from ..rules import sched_rel, sched_worker, patterns, depgraph

ID = 'C03'
CLAIM = '''
Structural clauses decided: SHUT-1 - from the first Thread.start() every CFG
path of the master function to a normal or exceptional exit passes the
sentinel loop and the join loop (exceptional edges only where a resolved
raise/assert witness exists in the callee chain); WRK-1 - every path of a
worker iteration executes task_done() exactly once and then notifies under the
condition variable, and no exception can leave the iteration (taint model of
the task result); WRK-FINAL - on every path of a worker iteration the
status published for the task is a constant among DONE / FAILED / SKIPPED or
a value that a membership test against such a set has accepted (a status that
is merely a valid TaskStatus member - PENDING, WAITING - would keep the
dependents waiting for ever: F26); WAIT - wait() and the state inspection share one `with
cond_var` block, every notify is under it; SENT - as many sentinels as
workers, queue.join() first, worker leaves on the sentinel and acknowledges
it (task_done) because the queue outlives the call; LOCK - the
environment lock is re-entrant.
SHUT-2 - the sentinel loop is reached only on paths where the spawn loop
ran to its end (or it counts the started threads): no sentinel outlives the
call in the queue of the backend. BACKEND-OWNED - a backend (and its queue) is
built per call / per Scheduler, never once for the process (class attribute,
module-level object, default parameter value).
REL-2 / REL-4 (liveness side of the decision table): a task leaves the
master's list without being queued (row returning None) only when it is DONE,
and a row returning WAITING keeps it WAITING: a task dropped while PENDING or
WAITING is never run and its dependents wait for ever.
TOPO-CYCLE - topological_sort detects a cycle in its recursive visitor, or
after its work-list loop under a completeness test (a cyclic job raises
instead of leaving tasks that wait for each other for ever).
QUEUE-API - the backends use the work queue through put / get / task_done /
join only (no access to its deque, mutex or counters: join() waits on the
put / task_done accounting).
STATUS-WRITERS - in the backends a task status is written only by the
decision function (REL rows), by the master loop in front of it (REL prelude
rows) and by the worker around Task.do (WRK): no other transition exists.
Not decided: termination of Task.do, liveness under unfair OS scheduling.
'''
ASSUMPTIONS = [
    'queue.Queue / threading.Condition behave as documented',
    'an exceptional edge is only drawn where a witness (explicit raise or '
    'assert reachable through resolved repo calls) exists: "no violation" '
    'means no witnessed leak, not exception freedom',
]


def check(ctx):
    ctx.run(sched_worker.check_shut)
    ctx.run(sched_worker.check_wrk1)
    ctx.run(sched_worker.check_wrk_final)
    ctx.run(sched_worker.check_wait_sent)
    ctx.run(sched_rel.check_lock)
    ctx.run(sched_worker.check_backend_owned)
    ctx.run(sched_rel.check_rel, {'REL-2', 'REL-4'})
    ctx.run(sched_rel.check_status_writers)
    ctx.run(sched_worker.check_queue_api)
    ctx.run(depgraph.check_topo_cycle)
    ctx.run(patterns.check_patterns, ID)


from ..variants import sched as _v   # noqa: E402


def _variants(program):
    return _v.variants(program, ID)


def variants(program):
    from ..variants import patterns as _pv
    return list(_variants(program)) + _pv.variants(program, ID)
