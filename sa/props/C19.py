'''C19 - a failing command is never reported as done; output captured.'''
import ast

from ..rules import extcmd, sched_worker, patterns
from ..astutil import txt, call_name
from ..mutate import (Variant, edit_module, find_func, replace_first,
                      remove_stmt, insert_stmt, parse_stmts, parse_expr)

ID = 'C19'
CLAIM = '''
Structural clauses decided: RUN-LOOP - the loop of cosette.run.run() that
calls subprocess.call is interpreted for the two cells {return code 0, return
code != 0}: on 0 the code is recorded exactly once, the status is untouched
and the iteration falls through to the next command; on != 0 the code is
recorded exactly once, the status becomes FAILED and the loop is left; the
status starts as DONE and nothing after the loop (or a for-else) restores it.
RUN-FLOW - each call runs the command of its iteration, in list order, with
the stdout / stderr handles run() was given. CAP-FLOW - in the RunTask runner
the handles given to run() are opened once for writing from make_cap_paths of
the per-task directory Path(output-root, sanitize_filename(name)), and the
status / return codes the task returns are the ones computed by run().
SANITIZE - every filesystem path built from a configured root (output-root,
log-root, report-root, or the root parameter of read_env) and a task name
passes the name through sanitize_filename (who-must-call, all 9 sites found
by query; the read side is exempt with a reason). SAN-BODY - sanitize_filename
returns its argument unchanged on every returning path (identity, hence
injective) and, evaluated on representative names, rejects every name with a
separator, a NUL or a dot directory. WRK-1 - an exception raised by Task.do
(a command that cannot be started) is turned into FAILED by the worker, which
still acknowledges the task (path interpretation of the worker loop).
CALL-LOOP - a task that calls run() in a loop stops at the first call that
did not succeed. START-SCOPE - the description-time methods of RunTask / RunTaskFactory raise
no OSError and no exception guarded by a file-system probe (which / exists /
access ...): a missing executable fails the task at run time, not the job
description.
CAP-DIRECT - every process-spawning call of run.py hands the capture files
over as stdout= / stderr= (no PIPE, no check_output): the child writes the
bytes itself.
Not decided: the content of the captured files; commands killed by signals;
the empty task name.
'''
ASSUMPTIONS = ['subprocess.call returns the exit status of the command and '
               'raises when it cannot be started']

RUNM = 'valjean.cosette.run'
CODE = 'valjean.cosette.code'
PATHM = 'valjean.path'


def check(ctx):
    ctx.run(extcmd.check_run_loop)
    ctx.run(extcmd.check_cap_flow)
    ctx.run(extcmd.check_sanitize)
    ctx.run(extcmd.check_sanitizer_body)
    ctx.run(extcmd.check_start_scope)
    ctx.run(extcmd.check_call_loop)
    ctx.run(extcmd.check_cap_direct)
    ctx.run(sched_worker.check_wrk1)
    ctx.run(patterns.check_patterns, ID)


def _variants(program):
    out = []

    def add(name, kind, mod, editor, expect=None, quick=False, note=''):
        out.append(Variant(name, kind, edit_module(program, mod, editor),
                           expect, quick, note))

    def output_through_a_pipe(tree):
        fun = find_func(tree, 'run')
        tree.body.insert(next(i for i, n in enumerate(tree.body)
                              if isinstance(n, ast.ImportFrom)),
                         parse_stmts('from subprocess import run as '
                                     'sp_run, PIPE')[0])
        for node in ast.walk(fun):
            if isinstance(node, ast.Assign) and isinstance(
                    node.value, ast.Call) and call_name(node.value) == \
                    'call':
                call = node.value
                call.func = ast.Name(id='sp_run', ctx=ast.Load())
                for kwd in call.keywords:
                    if kwd.arg == 'stdout':
                        kwd.value = ast.Name(id='PIPE', ctx=ast.Load())
                tgt = ast.unparse(node.targets[0])
                return insert_stmt(
                    fun, lambda s: s is node, parse_stmts(
                        f'stdout.write({tgt}.stdout)\n'
                        f'{tgt} = {tgt}.returncode'))
        return False
    add('seed-command-output-read-through-a-pipe', 'mutant', RUNM,
        output_through_a_pipe, {'CAP-DIRECT'},
        note='seed C19-r4-1: text-mode decoding and newline translation in '
             'the parent change what is captured')

    def no_break(tree):
        fun = find_func(tree, 'run')
        return remove_stmt(fun, lambda s: isinstance(s, ast.Break))
    add('failure-does-not-stop-the-list', 'mutant', RUNM, no_break,
        {'RUN-LOOP'}, quick=True)

    def no_failed(tree):
        fun = find_func(tree, 'run')
        return remove_stmt(
            fun, lambda s: isinstance(s, ast.Assign) and 'FAILED' in txt(s))
    add('failure-keeps-done', 'mutant', RUNM, no_failed, {'RUN-LOOP'},
        quick=True)

    def append_after_test(tree):
        fun = find_func(tree, 'run')
        loop = [n for n in ast.walk(fun) if isinstance(n, ast.For)][0]
        idx = [i for i, s in enumerate(loop.body)
               if 'results.append' in txt(s)][0]
        stmt = loop.body.pop(idx)
        loop.body.append(stmt)
        return True
    add('failing-code-not-recorded', 'mutant', RUNM, append_after_test,
        {'RUN-LOOP'}, note='results.append moved after the break')

    def only_negative(tree):
        fun = find_func(tree, 'run')
        return replace_first(
            fun, lambda n: isinstance(n, ast.Compare) and txt(n) ==
            'result != 0', lambda n: parse_expr('result < 0'))
    add('only-signals-fail', 'mutant', RUNM, only_negative, {'RUN-LOOP'},
        note='positive exit codes treated as success')

    def restore_done(tree):
        fun = find_func(tree, 'run')
        return insert_stmt(
            fun, lambda s: isinstance(s, ast.Return),
            parse_stmts('status = TaskStatus.DONE'), where='before')
    add('status-restored-after-loop', 'mutant', RUNM, restore_done,
        {'RUN-LOOP'})

    def stderr_swapped(tree):
        fun = find_func(tree, 'run')
        for node in ast.walk(fun):
            if isinstance(node, ast.Call) and call_name(node) == 'call':
                for kwd in node.keywords:
                    if kwd.arg == 'stderr':
                        kwd.value = ast.Name(id='stdout', ctx=ast.Load())
                        return True
        return False
    add('stderr-into-stdout', 'mutant', RUNM, stderr_swapped, {'RUN-FLOW'})

    def append_mode(tree):
        fun = find_func(tree, 'RunTask.run_task')
        return replace_first(
            fun, lambda n: isinstance(n, ast.Call) and txt(n) ==
            "stdout_path.open('w')",
            lambda n: parse_expr("stdout_path.open('a')"))
    add('capture-appends-to-previous-run', 'mutant', RUNM, append_mode,
        {'CAP-FLOW'})

    def raw_dir(tree):
        fun = find_func(tree, 'RunTask.run_task')
        return replace_first(
            fun, lambda n: isinstance(n, ast.Call) and call_name(n) ==
            'sanitize_filename', lambda n: n.args[0])
    add('run-task-raw-name', 'mutant', RUNM, raw_dir,
        {'SANITIZE', 'CAP-FLOW'}, quick=True)

    def raw_checkout(tree):
        fun = find_func(tree, 'CheckoutTask.__init__')
        return replace_first(
            fun, lambda n: isinstance(n, ast.Call) and call_name(n) ==
            'sanitize_filename', lambda n: n.args[0], nth=1)
    add('checkout-dir-raw-name', 'mutant', CODE, raw_checkout, {'SANITIZE'},
        quick=True, note='the F19 defect')

    def raw_buildlog(tree):
        fun = find_func(tree, 'BuildTask.__init__')
        return replace_first(
            fun, lambda n: isinstance(n, ast.Call) and call_name(n) ==
            'sanitize_filename', lambda n: n.args[0], nth=0)
    add('build-log-raw-name', 'mutant', CODE, raw_buildlog, {'SANITIZE'})

    def status_const(tree):
        fun = find_func(tree, 'RunTask.run_task')
        return replace_first(
            fun, lambda n: isinstance(n, ast.Return) and isinstance(
                n.value, ast.Tuple) and txt(n.value.elts[-1]) == 'status',
            lambda n: ast.Return(value=parse_expr(
                '(env_up, TaskStatus.DONE)')))
    add('runner-always-done', 'mutant', RUNM, status_const, {'CAP-FLOW'})

    def lossy(tree):
        fun = find_func(tree, 'sanitize_filename')
        return replace_first(
            fun, lambda n: isinstance(n, ast.Return),
            lambda n: ast.Return(value=parse_expr("name.replace(' ', '_')")))
    add('sanitizer-rewrites-spaces', 'mutant', PATHM, lossy, {'SAN-BODY'},
        quick=True, note="'a b' and 'a_b' then share a directory")

    def no_dot_check(tree):
        fun = find_func(tree, 'sanitize_filename')
        return remove_stmt(fun, lambda s: isinstance(s, ast.If) and
                           "'..'" in txt(s.test))
    add('sanitizer-accepts-dotdot', 'mutant', PATHM, no_dot_check,
        {'SAN-BODY'})

    def slash_only_leading(tree):
        fun = find_func(tree, 'sanitize_filename')
        return replace_first(
            fun, lambda n: isinstance(n, ast.Compare) and txt(n) ==
            "'/' in name", lambda n: parse_expr("name.startswith('/')"))
    add('sanitizer-only-leading-slash', 'mutant', PATHM, slash_only_leading,
        {'SAN-BODY'})

    def sanitizer_pathlib(tree):
        fun = find_func(tree, 'sanitize_filename')
        ok = remove_stmt(fun, lambda s: isinstance(s, ast.If) and
                         "'/' in name" in txt(s.test))
        ok = ok and remove_stmt(fun, lambda s: isinstance(s, ast.If) and
                                "'..'" in txt(s.test))
        if not ok:
            return False
        rets = [i for i, s in enumerate(fun.body)
                if isinstance(s, ast.Return)]
        fun.body[rets[-1]:rets[-1]] = parse_stmts(
            "from pathlib import PurePosixPath\n"
            "if PurePosixPath(name).name != name:\n"
            "    raise ValueError(f'{name!r} is not a valid filename')")
        return True
    add('sanitizer-single-component-via-pathlib', 'mutant', PATHM,
        sanitizer_pathlib, {'SAN-BODY'},
        note="seeded C19-2: PurePosixPath('..').name == '..': the parent "
             "directory is accepted")

    # ---- twins
    def eq_zero(tree):
        fun = find_func(tree, 'run')
        loop = [n for n in ast.walk(fun) if isinstance(n, ast.For)][0]
        for idx, stmt in enumerate(loop.body):
            if isinstance(stmt, ast.If) and txt(stmt.test) == 'result != 0':
                loop.body[idx] = ast.If(
                    test=parse_expr('result == 0'),
                    body=parse_stmts('continue'), orelse=[])
                loop.body[idx + 1:idx + 1] = stmt.body
                return True
        return False
    add('twin-continue-on-success', 'twin', RUNM, eq_zero)

    def truthy(tree):
        fun = find_func(tree, 'run')
        return replace_first(
            fun, lambda n: isinstance(n, ast.Compare) and txt(n) ==
            'result != 0', lambda n: ast.Name(id='result', ctx=ast.Load()))
    add('twin-truthiness-test', 'twin', RUNM, truthy)

    def local_name(tree):
        fun = find_func(tree, 'CheckoutTask.__init__')
        inner = [n for n in ast.walk(fun) if isinstance(n, ast.FunctionDef)
                 and n.name == 'checkout'][0]
        inner.body[0:0] = parse_stmts(
            'safe_name = sanitize_filename(self.name)')
        ok = False
        for node in ast.walk(inner):
            if isinstance(node, ast.Call) and call_name(node) == 'ensure':
                for idx, arg in enumerate(node.args):
                    if 'sanitize_filename(self.name)' in txt(arg):
                        node.args[idx] = parse_expr(txt(arg).replace(
                            'sanitize_filename(self.name)', 'safe_name'))
                        ok = True
        return ok
    add('twin-sanitized-once-in-a-local', 'twin', CODE, local_name)

    def dots_eq(tree):
        fun = find_func(tree, 'sanitize_filename')
        return replace_first(
            fun, lambda n: isinstance(n, ast.Compare) and "('.', '..')" in
            txt(n), lambda n: parse_expr("name == '.' or name == '..'"))
    add('twin-dot-tests-spelled-out', 'twin', PATHM, dots_eq)
    def factory_probes_executable(tree):
        # seed C19-r2-3
        fun = find_func(tree, 'RunTaskFactory.from_executable')
        pos = 1 if isinstance(fun.body[0], ast.Expr) else 0
        fun.body[pos:pos] = parse_stmts(
            'import shutil\n'
            'if shutil.which(path) is None:\n'
            "    raise FileNotFoundError(2, 'executable not found', path)")
        return True
    add('seed-factory-refuses-a-missing-executable', 'mutant', RUNM,
        factory_probes_executable, {'START-SCOPE'},
        note='the job description raises: the whole run is lost, and an '
             'executable built by an earlier task is refused')

    def factory_warns_only(tree):
        fun = find_func(tree, 'RunTaskFactory.from_executable')
        pos = 1 if isinstance(fun.body[0], ast.Expr) else 0
        fun.body[pos:pos] = parse_stmts(
            'import shutil\n'
            'if shutil.which(path) is None:\n'
            "    LOGGER.warning('executable %s not found (yet)', path)")
        return True
    add('twin-factory-warns-about-a-missing-executable', 'twin', RUNM,
        factory_warns_only)

    def _one_target_per_call(stop):
        def editor(tree):
            fun = find_func(tree, 'BuildTask.cmake_build_sys')
            inner = next(n for n in ast.walk(fun) if isinstance(
                n, ast.FunctionDef) and n.name == 'build_sys')
            start = next(i for i, s_ in enumerate(inner.body)
                         if isinstance(s_, ast.Assign) and
                         txt(s_.targets[0]) == 'build_cli')
            tail = ('        return status\n' if stop else
                    "        LOGGER.debug('build of %s returned %s', target, "
                    "ret)\n")
            inner.body[start:] = parse_stmts(
                'for target in ([None] if not targets else targets):\n'
                "    build_cli = [self.CMAKE, '--build', str(build_dir)]\n"
                '    if target is not None:\n'
                "        build_cli.extend(['--target', target])\n"
                '    if build_flags is not None:\n'
                '        build_cli.extend(build_flags)\n'
                '    ret, status, _ = run([build_cli], stdout=log, '
                'stderr=log, cwd=str(build_dir))\n'
                '    if ret[-1] != 0:\n' + tail +
                'return status')
            return True
        return editor
    add('seed-one-build-command-per-target-last-status-wins', 'mutant', CODE,
        _one_target_per_call(False), {'CALL-LOOP'},
        note="seed C19-r3-2: targets ['broken', 'good'] end DONE")
    add('twin-one-build-command-per-target-stopping-at-a-failure', 'twin',
        CODE, _one_target_per_call(True))

    return out


def variants(program):
    from ..variants import patterns as _pv
    return list(_variants(program)) + _pv.variants(program, ID)
