'''C01 - a task never starts before its dependencies finished and published.'''
from ..rules import sched_rel, sched_worker, depgraph, patterns

ID = 'C01'
CLAIM = '''
Structural clauses decided (shipped QueueScheduling backend only):
(a) REL-1a: the complete decision table of the release decision is computed
by abstract interpretation of decide_new_state and its callees over SETS of
task statuses (status alphabet read from TaskStatus, meaning of is_X read
from Env.get_status); every row that returns PENDING must constrain ALL
dependencies to {DONE, FAILED, SKIPPED}; REL-4: every row that returns
WAITING leaves the task WAITING - a task still DONE from an earlier run that
must wait for a re-executed dependency is demoted, otherwise ITS dependents see
a final status and start before its execution of this run;
(b) PUB: on every CFG path of one worker iteration no payload write
(Env.apply, clocks) follows a status write that may be DONE unless both are in
one atomic region of the environment lock - so for every interleaving the
master cannot see DONE before the update it releases;
(c) ENQ/LOCK: the decision is only invoked under Env.atomically, queue.put
happens exactly on PENDING, and Env's status/payload accessors touch the
mapping only under the (re-entrant) lock.
A status carried inside the dictionary handed to Env.apply counts as a status
write, atomic with the payload only if Env.apply holds the lock over the whole
update; a worker write through env[...] that bypasses the Env API must sit
under the environment lock; helper predicates of the decision are inlined
with the roles bound by argument position.
GRAPH-WHOLE - the graphs that supply the dependencies to the decision are
the job's own, in the scheduler and inside the backend (never re-bound to a
pruned / transitively reduced copy).
SWAP-SEM - DepGraph.remove_node (used by Scheduler through flatten / graft)
keeps every edge between the remaining nodes (index-class interpretation,
see C16). BACKEND-STATELESS - an attribute of the backend filled while scheduling is
reset by execute_tasks (nothing of one run decides in the next).
TOPO - the master examines the tasks in a topological order of the graph
that gives `deps` to the decision, and does not re-order the sorted list (on
a restored environment a DONE task would be examined, and its dependents
released, before the dependency that the same pass resets).
ENQ-INPUTS - no argument bound to the decision before the atomic region is
computed from the environment (no status / clock read hoisted out of it).
STATUS-WRITERS - in the backends a task status is written only by the
decision function (REL rows), by the master loop in front of it (REL prelude
rows) and by the worker around Task.do (WRK): no other transition exists.
Not decided: other backends, fairness, the behaviour of Task.do itself.
'''
ASSUMPTIONS = [
    'CPython: a write performed while holding threading.RLock is visible in '
    'program order to a reader that takes the same lock',
    'the master reads statuses only through Env.is_*/get_status (checked by '
    'REL: unknown calls receiving the environment make a row undecided)',
]


def check(ctx):
    ctx.run(sched_rel.check_rel, {'REL-1a', 'REL-4'})
    ctx.run(sched_rel.check_enq)
    ctx.run(sched_rel.check_lock)
    ctx.run(sched_worker.check_pub)
    ctx.run(sched_rel.check_graph_whole)
    ctx.run(sched_rel.check_graph_rebound)
    ctx.run(sched_rel.check_decision_inputs)
    ctx.run(sched_worker.check_backend_stateless)
    ctx.run(depgraph.check_swap_sem)
    ctx.run(sched_rel.check_topo)
    ctx.run(sched_rel.check_status_writers)
    ctx.run(patterns.check_patterns, ID)


from ..variants import sched as _v   # noqa: E402


def _variants(program):
    return _v.variants(program, ID)


def variants(program):
    from ..variants import patterns as _pv
    return list(_variants(program)) + _pv.variants(program, ID)
