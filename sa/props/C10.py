'''C10 - numbers read from Tripoli-4 and Apollo3 outputs.'''
from ..rules import parsers, patterns
from ..variants import parsers as _v

ID = 'C10'
CLAIM = '''
Four explicit clauses only. EDGE-END ("bins ... in increasing order whatever
the order they were printed in"): the missing upper edge of a time / mu / phi
grid is read from the first printed record and put in front when the grid was
printed decreasing, from the last record and appended otherwise. UNIT ("error = value x printed sigma %"): every
Dataset(...) of tripoli4/data_convertor.py whose error derives from a sigma
field is, as a multiset of factors, sigma x score x 0.01 with sigma and score
read from the same record and the score factor textually equal to the value
argument; the only pass-through of a printed sigma is on the branch where both
'sigma' and 'sigma%' exist. FLIP ("bins increasing whatever the printed
order"): when the bins of a dimension are reversed, every array of
self.arrays is reversed in one unconditional loop along the same axis, the
axis is the position of the key in self.bins, and the decreasing test
compares the first two bins. SIBLING-BINS ("identical whether read whole or
picked"): the decision tables of hdf5_reader.make_bins and
Picker._make_bins (name literal / size tests -> ordered bin keys) and of the
two reshape routines agree row by row, in the same test order, modulo a
frozen exception list with reasons.
ZIP-ORDER - no zip() of the Apollo3 reader / picker has a set operand (names
and numbers stored side by side are paired by position). UNIT also requires
that the NaN fall-back of an error is selected by the presence of the sigma
key, not by the truth value of the printed sigma (0 is a value).
EDGE-EXACT - the reader modules compare the numbers of the listing exactly:
no isclose / allclose with a non-zero absolute tolerance. PICK-CACHE - what a Picker memoises about ITS file is keyed on the instance:
no mutable class-level container is written through self by its methods.
NOT decided (out of reach of static analysis): that the pyparsing grammar and
the builders put each printed number into the right cell, edition selection,
zone/response attachment, the HDF5 group walk - value-level facts of a
4000-line grammar.
'''
ASSUMPTIONS = ['the grammar stores the printed relative sigma under keys '
               'named sigma / sigma% (checked only by name)']


def check(ctx):
    ctx.run(parsers.check_unit)
    ctx.run(parsers.check_flip)
    ctx.run(parsers.check_sibling_bins)
    ctx.run(parsers.check_edge_end)
    ctx.run(parsers.check_zip_order)
    ctx.run(parsers.check_instance_cache)
    ctx.run(parsers.check_edge_exact)
    ctx.run(parsers.check_token_order)
    ctx.run(patterns.check_patterns, ID)


def _variants(program):
    return _v.variants(program, ID)


def variants(program):
    from ..variants import patterns as _pv
    return list(_variants(program)) + _pv.variants(program, ID)
