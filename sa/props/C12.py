'''C12 - a rendered report shows a failure mark exactly for failing results.'''
import ast

from ..rules import marks, reportfs, patterns
from ..astutil import txt, call_name
from ..mutate import (Variant, edit_module, find_func, replace_first,
                      remove_stmt, insert_stmt, parse_stmts, parse_expr)

ID = 'C12'
CLAIM = '''
Structural clauses decided: DISPATCH - the guards of every built-in tabular /
textual dispatcher (the table_repr.repr_testresult* functions and the two
FullTableRepresenter overrides) are evaluated concretely over the finite
product Verbosity (6 members read from verbosity.py) x {verdict true, verdict
false} (a constant __bool__ restricts the column); the leaf representers
reached at each point are classified by LEAF and the oracle is: at every
non-silent verbosity a failing result reaches at least one marking leaf, a
passing result reaches no unconditionally marking leaf, and no leaf uses a
success flag un-negated as a highlight. LEAF - a TextTemplate marks iff its
text holds the highlight role of RstTable; a TableTemplate is classified by
the elements that flow into its highlights (constant False / True, negation
of a member of the verdict family read from the class's __bool__ and
oracles(), data dependence on that family). ROW-ALIGNED - TableTemplate
slicing selects the rows of columns and highlights with the same index and
joining stacks both, self before other; headers and units are carried over.
JOIN-AXIS - the flags of a column are joined along the axis its column is
joined along (axis read from the number of dimensions of the column; hstack
of the two lists of flag arrays, or hstack column by column when builders
hand flag columns with a unit axis, join another axis: F25).
LEN-ALIGNED - where both are linear in the same symbols the highlight column
and the data column of a table have equal symbolic length. HL-WRAP - the
highlight role wraps a cell exactly when its flag is true; cells and flags
are walked by the same traversal. ROW-SELECT - a detailed table that shows
only the failing bins selects them with the per-bin verdict (oracles(),
equal ...) that also drives the highlights, not with a criterion
re-computed from the statistic. EXHAUSTIVE - each of the ten result
kinds of the property resolves, through the reflective name dispatch, to a
table_repr representer.
HL-SOURCE - the non-constant highlights of every table built by a
representer (directly or through a helper) depend on data recorded by the
result (anything under `result.` but `result.test`), not only on the inputs.
HL-PER-DS - no list of flag columns is built by repeating one non-constant
array for all the datasets. CLEAR-COMPLETE - every attribute the formatting methods of Rst accumulate is
reset by Rst.clear() (a re-used Rst formats the second report like the first).
ZIP-PARALLEL - the operands of every zip() of table_repr.py, followed through
locals and helper parameters to their origin, are either all re-ordered /
filtered or none (rows and their marks are paired by position).
Not decided: validity of the emitted reStructuredText and read-back of the
cells (docutils is not run); which bins end up in a detailed table
(value-level selection by np.where).
'''
ASSUMPTIONS = ['a result is false iff some member of its verdict family is '
               'false (read from __bool__ / oracles)']
TECHNIQUE = ('static analysis: concrete evaluation of dispatcher guards over '
             'a finite enum product, polarity / dependence classification of '
             'highlight expressions, symbolic list lengths')

TREPR = marks.TREPR
TEMPL = marks.TEMPL
RSTM = marks.RSTM
REPR = marks.REPR


def check(ctx):
    ctx.run(marks.check_dispatch)
    ctx.run(marks.check_exhaustive)
    ctx.run(marks.check_row_aligned)
    ctx.run(marks.check_hl_wrap)
    ctx.run(marks.check_len_aligned)
    ctx.run(marks.check_row_select)
    ctx.run(marks.check_hl_source)
    ctx.run(marks.check_hl_per_dataset)
    ctx.run(marks.check_zip_parallel)
    ctx.run(reportfs.check_clear_complete)
    ctx.run(patterns.check_patterns, ID)


def _variants(program):
    out = []

    def add(name, kind, mod, editor, expect=None, quick=False, note=''):
        out.append(Variant(name, kind, edit_module(program, mod, editor),
                           expect, quick, note))

    def getitem_keeps_highlights(tree):
        fun = find_func(tree, 'TableTemplate.__getitem__')
        for node in ast.walk(fun):
            if isinstance(node, ast.keyword) and node.arg == 'highlights':
                node.value = parse_expr('self.highlights.copy()')
                return True
        return False
    add('slice-keeps-all-highlights', 'mutant', TEMPL,
        getitem_keeps_highlights, {'ROW-ALIGNED'}, quick=True,
        note='the F13a defect')

    def join_forgets_highlights(tree):
        fun = find_func(tree, 'TableTemplate._binary_join')
        return remove_stmt(fun, lambda s: isinstance(s, ast.Assign) and
                           txt(s.targets[0]) == 'self.highlights')
    add('join-forgets-highlights', 'mutant', TEMPL, join_forgets_highlights,
        {'ROW-ALIGNED'})

    def join_highlights_whole_lists(tree):
        # F25 as shipped: highlights stacked as two lists of arrays
        fun = find_func(tree, 'TableTemplate._binary_join')
        for node in ast.walk(fun):
            if isinstance(node, ast.Assign) and txt(node.targets[0]) == \
                    'self.highlights':
                node.value = parse_expr(
                    'list(np.hstack(([np.atleast_1d(h) for h in '
                    'self.highlights], [np.atleast_1d(h) for h in '
                    'other.highlights])))')
                return True
        return False
    add('join-highlights-stacked-as-whole-lists', 'mutant', TEMPL,
        join_highlights_whole_lists, {'JOIN-AXIS'}, quick=True,
        note='the F25 defect: N-d cells joined along another axis than the '
             'columns')

    def join_highlights_by_index(tree):
        # seed C12-r2-1: column by column with hstack - the unit axis of
        # the by-labels flags is joined instead of their rows
        fun = find_func(tree, 'TableTemplate._binary_join')
        for node in ast.walk(fun):
            if isinstance(node, ast.Assign) and txt(node.targets[0]) == \
                    'self.highlights':
                node.value = parse_expr(
                    '[np.hstack((np.atleast_1d(self.highlights[i]), '
                    'np.atleast_1d(other.highlights[i]))) '
                    'for i in range(len(self.highlights))]')
                return True
        return False
    add('join-highlights-hstack-per-column', 'mutant', TEMPL,
        join_highlights_by_index, {'JOIN-AXIS'},
        note='flags of shape (n, 1) next to columns of shape (n,)')

    def join_axis_inline(tree):
        # twin: the axis computed in the comprehension, from the columns of
        # the other table (same number of dimensions)
        fun = find_func(tree, 'TableTemplate._binary_join')
        for node in ast.walk(fun):
            if isinstance(node, ast.Assign) and txt(node.targets[0]) == \
                    'self.highlights':
                node.value = parse_expr(
                    '[np.concatenate((np.atleast_1d(hself), '
                    'np.atleast_1d(hother)), axis=0 if np.ndim(col) < 2 '
                    'else 1) for hself, hother, col in zip(self.highlights, '
                    'other.highlights, other.columns)]')
                return True
        return False
    add('twin-join-axis-computed-inline', 'twin', TEMPL, join_axis_inline)

    def join_columns_by_zip(tree):
        fun = find_func(tree, 'TableTemplate._binary_join')
        for node in ast.walk(fun):
            if isinstance(node, ast.Assign) and txt(node.targets[0]) == \
                    'self.columns':
                node.value = parse_expr(
                    'tuple(np.hstack((cself, cother)) for cself, cother in '
                    'zip(self.columns, other.columns))')
                return True
        return False
    add('twin-join-columns-by-zip', 'twin', TEMPL, join_columns_by_zip)

    def stats_short_column(tree):
        fun = find_func(tree, 'repr_testresultstats')
        return remove_stmt(fun, lambda s: isinstance(s, ast.Expr) and
                           txt(s) == 'hl_column.append(False)')
    add('stats-highlight-column-too-short', 'mutant', TREPR,
        stats_short_column, {'LEN-ALIGNED'}, quick=True,
        note='the F13b defect: the total row is dropped')

    def metadata_marks_from_text(tree):
        # seed C12-r2-3: marks re-computed from the printed metadata
        fun = find_func(tree, 'repr_metadata_full_details')
        return replace_first(
            fun, lambda n: isinstance(n, ast.UnaryOp) and 'dict_res' in
            txt(n),
            lambda n: parse_expr(
                'str(result.test.all_md[dkey][nam]) != '
                'str(result.test.all_md[dkey][min(samp_names)])'))
    add('seed-metadata-marks-recomputed-from-the-text', 'mutant', TREPR,
        metadata_marks_from_text, {'HL-SOURCE'},
        note='100 vs 100.0 marked although equal; 2 vs "2" unmarked')

    def metadata_flags_local(tree):
        fun = find_func(tree, 'repr_metadata_full_details')
        done = replace_first(
            fun, lambda n: isinstance(n, ast.UnaryOp) and 'dict_res' in
            txt(n), lambda n: parse_expr('not flags[dkey][nam]'))
        idx = 1 if isinstance(fun.body[0], ast.Expr) else 0
        fun.body.insert(idx, parse_stmts('flags = result.dict_res')[0])
        return done
    add('twin-metadata-flags-through-a-local', 'twin', TREPR,
        metadata_flags_local)

    def student_flags_repeated(tree):
        # seed C12-r3-2: the combined verdict marks every dataset
        fun = find_func(tree, 'repr_student_intermediate')
        for idx_, node in enumerate(fun.body):
            if isinstance(node, ast.For) and 'highlights' in txt(node) and \
                    txt(node.iter) == 'oracles':
                fun.body[idx_:idx_ + 1] = parse_stmts(
                    'kos = np.logical_not(falses_ind[np.where('
                    'falses_ind == 0)])\n'
                    'highlights += [falses, falses, falses, kos] * '
                    'len(oracles)')
                return True
        return False
    add('seed-one-flag-column-repeated-for-every-dataset', 'mutant', TREPR,
        student_flags_repeated, {'HL-PER-DS'})

    def rst_keeps_pages(tree):
        # seed C12-r3-1 (reduced): bookkeeping that survives clear()
        init = find_func(tree, 'Rst.__init__')
        init.body.append(parse_stmts('self.hl_pages = set()')[0])
        fun = find_func(tree, 'Rst.format_report_rec')
        fun.body.insert(1 if isinstance(fun.body[0], ast.Expr) else 0,
                        parse_stmts('self.hl_pages.add(tree)')[0])
        return True
    add('seed-state-of-a-previous-report-survives-clear', 'mutant', RSTM,
        rst_keeps_pages, {'CLEAR-COMPLETE'},
        note='the second report formatted by the same Rst loses the role '
             'declarations of the pages seen before')

    def rst_keeps_pages_cleared(tree):
        init = find_func(tree, 'Rst.__init__')
        init.body.append(parse_stmts('self.hl_pages = set()')[0])
        clear = find_func(tree, 'Rst.clear')
        clear.body.append(parse_stmts('self.hl_pages.clear()')[0])
        fun = find_func(tree, 'Rst.format_report_rec')
        fun.body.insert(1 if isinstance(fun.body[0], ast.Expr) else 0,
                        parse_stmts('self.hl_pages.add(tree)')[0])
        return True
    add('twin-page-bookkeeping-reset-by-clear', 'twin', RSTM,
        rst_keeps_pages_cleared)

    def equal_not_negated(tree):
        fun = find_func(tree, 'repr_equal')
        return replace_first(
            fun, lambda n: isinstance(n, ast.Call) and txt(n) ==
            'np.logical_not(equal)', lambda n: n.args[0])
    add('equal-highlights-the-equal-bins', 'mutant', TREPR,
        equal_not_negated, {'DISPATCH'}, quick=True)

    def summary_swapped(tree):
        fun = find_func(tree, 'repr_student_summary')
        for node in ast.walk(fun):
            if isinstance(node, ast.If):
                node.test = ast.UnaryOp(op=ast.Not(), operand=node.test)
                return True
        return False
    add('student-summary-polarity', 'mutant', TREPR, summary_swapped,
        {'DISPATCH'})

    def approx_silent_failing(tree):
        fun = find_func(tree, 'repr_testresultapproxequal')
        return replace_first(
            fun, lambda n: isinstance(n, ast.Compare) and txt(n) ==
            'verbosity == Verbosity.SUMMARY',
            lambda n: parse_expr('verbosity == Verbosity.SUMMARY and '
                                 'bool(result)'))
    add('twin-summary-only-when-passing', 'twin', TREPR,
        approx_silent_failing,
        note='a failing result then gets the detailed table: still marked')

    def equal_summary_ok_only(tree):
        fun = find_func(tree, 'repr_testresultequal')
        for node in ast.walk(fun):
            if isinstance(node, ast.If) and 'verbosity.value <' in txt(
                    node.test):
                node.body = parse_stmts('return []')
                return True
        return False
    add('failing-equal-hidden-at-summary', 'mutant', TREPR,
        equal_summary_ok_only, {'DISPATCH'}, quick=True,
        note='a failing result rendered as nothing at SUMMARY')

    def metadata_const(tree):
        fun = find_func(tree, 'repr_metadata')
        return replace_first(
            fun, lambda n: isinstance(n, ast.List) and txt(n) ==
            '[[False], [True]]', lambda n: parse_expr('[[False], [False]]'))
    add('metadata-failure-not-highlighted', 'mutant', TREPR, metadata_const,
        {'DISPATCH'})

    def bonf_highlight_oracle(tree):
        fun = find_func(tree, 'repr_bonferroni')
        return replace_first(
            fun, lambda n: isinstance(n, ast.ListComp) and txt(n) ==
            '[not oracle for oracle in oracles]',
            lambda n: parse_expr('[bool(oracle) for oracle in oracles]'))
    add('bonferroni-highlights-successes', 'mutant', TREPR,
        bonf_highlight_oracle, {'DISPATCH'})

    def full_repr_drops_own(tree):
        fun = find_func(tree, 'FullTableRepresenter.repr_testresultbonferroni')
        rets = [n for n in ast.walk(fun) if isinstance(n, ast.Return)]
        last = max(rets, key=lambda n: n.lineno)
        if isinstance(last.value, ast.BinOp):
            last.value = last.value.right
            return True
        return False
    add('full-representer-drops-own-table', 'mutant', REPR,
        full_repr_drops_own, {'DISPATCH'},
        note='only the first test is shown: a failing Bonferroni result '
             'carries no mark of its own')

    def highlight_inverted(tree):
        fun = find_func(tree, 'RstTable.highlight')
        for node in ast.walk(fun):
            if isinstance(node, ast.If):
                node.test = ast.UnaryOp(op=ast.Not(), operand=node.test)
                return True
        return False
    add('role-wraps-unflagged-cells', 'mutant', RSTM, highlight_inverted,
        {'HL-WRAP'}, quick=True)

    def renamed_repr(tree):
        for node in tree.body:
            if isinstance(node, ast.FunctionDef) and node.name == \
                    'repr_testresultmetadata':
                node.name = 'repr_testresult_metadata'
                return True
        return False
    add('representer-renamed', 'mutant', TREPR, renamed_repr,
        {'EXHAUSTIVE', 'DISPATCH'},
        note='the reflective dispatch silently finds nothing')

    def select_by_statistic(tree):
        fun = find_func(tree, 'repr_student_intermediate')
        ok = False
        for idx, stmt in enumerate(fun.body):
            if isinstance(stmt, ast.For) and 'falses_ind' in txt(stmt):
                fun.body[idx] = parse_stmts(
                    'for tstud in result.tstud:\n'
                    '    falses_ind[np.where(np.fabs(tstud) >= '
                    'result.test.threshold)] = 0')[0]
                ok = True
        return ok
    add('failing-rows-selected-by-recomputed-criterion', 'mutant', TREPR,
        select_by_statistic, {'ROW-SELECT'},
        note='seeded C12-1: a bin with a NaN statistic fails the test but '
             'is left out of the failing-bins table')

    def flags_raveled(tree):
        fun = find_func(tree, 'RstTable.format_columns')
        return replace_first(
            fun, lambda n: isinstance(n, ast.Call) and txt(n) ==
            'cls.transpose(highlights)',
            lambda n: parse_expr('zip(*[np.ravel(high) for high in '
                                 'highlights])'))
    add('flags-walked-in-another-order-than-cells', 'mutant', RSTM,
        flags_raveled, {'HL-WRAP'},
        note='seeded C12-2: np.nditer walks the cells in memory order, '
             'ravel walks the flags in C order')

    # ---- twins
    def invert_op(tree):
        fun = find_func(tree, 'repr_equal')
        return replace_first(
            fun, lambda n: isinstance(n, ast.Call) and txt(n) ==
            'np.logical_not(equal)',
            lambda n: ast.UnaryOp(op=ast.Invert(), operand=n.args[0]))
    add('twin-tilde-instead-of-logical-not', 'twin', TREPR, invert_op)

    def getitem_comprehension(tree):
        fun = find_func(tree, 'TableTemplate.__getitem__')
        for node in ast.walk(fun):
            if isinstance(node, ast.keyword) and node.arg == 'highlights':
                node.value = parse_expr(
                    'list(np.asarray(h)[index] for h in self.highlights)')
                return True
        return False
    add('twin-slice-highlights-with-generator', 'twin', TEMPL,
        getitem_comprehension)

    def guard_in_tuple(tree):
        fun = find_func(tree, 'repr_testresultstudent')
        return replace_first(
            fun, lambda n: isinstance(n, ast.Compare) and txt(n) ==
            'verbosity == Verbosity.SUMMARY',
            lambda n: parse_expr('verbosity in (Verbosity.SUMMARY,)'))
    add('twin-guard-as-membership', 'twin', TREPR, guard_in_tuple)

    def _failed_first(both):
        def editor(tree):
            fun = find_func(tree, 'repr_testresultstatsbylabels')
            for node in ast.walk(fun):
                if isinstance(node, ast.Call) and call_name(node) == \
                        '_sbl_1colbylabel' and len(node.args) == 3:
                    if both:
                        fun.body.insert(1, parse_stmts(
                            'order = sorted(range(len(result.classify)), '
                            "key=lambda k: result.classify[k]['KO'] == 0)")[0])
                        node.args[1] = parse_expr(
                            '[result.classify[k] for k in order]')
                        node.args[2] = parse_expr(
                            '[result.oracles()[k] for k in order]')
                    else:
                        node.args[1] = parse_expr(
                            'sorted(result.classify, '
                            "key=lambda categ: categ['KO'] == 0)")
                    return True
            return False
        return editor
    add('seed-failed-categories-first-but-not-their-oracles', 'mutant',
        TREPR, _failed_first(False), {'ZIP-PARALLEL'},
        note='seed C12-r4-2: the rows are sorted, the oracles that mark '
             'them are not')
    add('twin-failed-categories-first-with-their-oracles', 'twin', TREPR,
        _failed_first(True))
    return out


def variants(program):
    from ..variants import patterns as _pv
    return list(_variants(program)) + _pv.variants(program, ID)
