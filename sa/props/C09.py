'''C09 - slicing and squeezing.'''
from ..rules import dataset, patterns
from ..variants import stats as _v

ID = 'C09'
CLAIM = '''
Structural clauses decided: SLICE-APPLY - value, error and bins of a slice
derive from the same index; SLICE-SIGN / SLICE-LIN - the function deriving
the edge slice from the cell slice is executed symbolically over the signs
{None, <0, 0, >0} of start and stop: every row must tell a negative start
from a non-negative one and a positive stop from a negative one, the outgoing
bounds are start-1 for a negative start, stop+1 for a positive stop and
unchanged otherwise, the step is unchanged; SQUEEZE-CMP - the predicate that
drops bins in squeeze(), evaluated over dimension lengths, is true exactly
for length one; value and error are squeezed alike; DS-PURE - slicing and
squeezing write neither into the original nor into aliases of its fields.
INDEX-KEPT - __getitem__ does not re-bind its index to slices rebuilt from
slice.indices(). The slice table distinguishes Python ints from numpy
integers (isinstance(bound, int) misses the latter). EDGE-KIND - the choice between the cell slice and the edge slice of the bins
is a comparison of len(<current bins>) with the current shape, not a kind
remembered on the object.
Not decided: content equality of the resulting arrays (numpy semantics).
'''
ASSUMPTIONS = ['unit step slices (the property excludes other steps)']


def check(ctx):
    ctx.run(dataset.check_slice_apply)
    ctx.run(dataset.check_slice_sign)
    ctx.run(dataset.check_squeeze)
    ctx.run(dataset.check_ds_pure)
    ctx.run(dataset.check_edge_kind)
    ctx.run(dataset.check_index_kept)
    ctx.run(patterns.check_patterns, ID)


def _variants(program):
    return _v.variants(program, ID)


def variants(program):
    from ..variants import patterns as _pv
    return list(_variants(program)) + _pv.variants(program, ID)
