'''C11 - truncated listing => parser error or complete edition.'''
from ..rules import parsers, patterns
from ..variants import parsers as _v

ID = 'C11'
CLAIM = '''
Structural clause decided: EXC-ESC - an inter-procedural exception-escape
analysis over the call graph below Parser.__init__, parse_from_number and
parse_from_index (scanner layer and grammar layer: every repo function used
as a pyparsing parse action in grammar.py is a root below parseString).
Raise facts: explicit `raise C(...)` (class resolved through the repo's own
exception hierarchy), re-raises, and a primitive table applied to the
scanner's conversions of file lines - int()/float() of a split() field
without isdigit() guard (ValueError), split()[k] with more tokens needed
than the enclosing `"literal" in line` guards guarantee (IndexError),
list.index on a substring-matched token (ValueError), bare next()
(StopIteration). Facts propagate up every call chain through the handlers
enclosing each call site (`raise D from ...` converts); pyparsing's own
IndexError -> ParseException conversion around parse actions is re-read from
the installed pyparsing source. Violation = a class other than
ParserException reaching an entry point, reported with the witness chain.
Fail actions (set_fail_action) are roots too, without the IndexError
conversion; a regular-expression match dereferenced without None test is an
AttributeError fact. LOCK-PAIR - the process-wide pyparsing lock is taken with `with`, or every
CFG path from an explicit acquire() to an exit of the function (exceptional
exits and the yield of a generator-based context manager included) passes its
release(). READ-LOOP - every `while` loop of the reader modules that reads the file
(readline / read) stops on an empty read (expected instances on the shipped
code: 0, it iterates with `for line in fil`; a built-in canary is checked at
every run). END-FLAG-TERM - Scanner._is_end_flag answers positively only on paths where the
line is known to end with a newline (a cut inside the value of the flag leaves
an unterminated last line). TIME-FIRST - the times of an edition are set by the first line that gives them
(setdefault); the only overwriting store into self.times[kind][batch] is under
`if self.partial` (a line after the edition never changes its results).
Not decided: other hangs; equality of a surviving edition with the complete
listing; exceptions originating in library calls outside the primitive
table; the ParseResult post-processing layer (its raise sites validate
programmer-supplied types, not listing content).
'''
ASSUMPTIONS = [
    'may-escape with witness, not a proof of exception freedom: unknown '
    'library calls generate no fact',
    'split()[0] / split()[-1] are applied to non-blank lines only',
]


def check(ctx):
    ctx.run(parsers.check_exc_esc)
    ctx.run(parsers.check_lock_pair)
    ctx.run(parsers.check_read_loop)
    ctx.run(parsers.check_end_flag_terminated)
    ctx.run(parsers.check_time_first)
    ctx.run(patterns.check_patterns, ID)


def _variants(program):
    return _v.variants(program, ID)


def variants(program):
    from ..variants import patterns as _pv
    return list(_variants(program)) + _pv.variants(program, ID)
