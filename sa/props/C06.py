'''C06 - Bonferroni and Holm-Bonferroni.'''
from ..rules import stats, patterns
from ..variants import stats as _v

ID = 'C06'
CLAIM = '''
Structural clauses decided: VERD-TABLE - the reject comparison of each
correction over {lt, eq, gt, unordered(NaN)} of p-value vs level: Bonferroni
rejects on lt, eq and NaN; Holm rejects on lt and NaN (strict) - the explicit
definitions of the statement; VERD-AGG - verdict and oracles are `not
any(rejected)`; LEVEL-LIN - Holm's denominator has the integer-linear normal
form m - i (i the 0-based enumerate index over the p-values sorted by
argsort, m the flattened size), i.e. m - k + 1; Bonferroni's level is alpha /
size of the reference dataset; UNSORT - both returned arrays are indexed by
the inverse permutation argsort(sorted_inds) and reshaped to the input shape.
PER-DATASET - evaluate hands the correction function one element of
<result>.pvalue (one dataset) at a time, never the pooled list.
FLAGS-SRC - every definition of what evaluate hands to the result as flags
contains a call of the correction function (no constant short cut).
NAN-MASK - no NaN-ignoring numpy function (fmin, fmax, nan_to_num, nan*
reductions) in bonferroni.py or in the Student test that feeds it.
Not decided: behaviour under ties of argsort, floating-point division, the
containment Bonferroni-flags-subset-of-Holm-flags as a numeric fact.
'''
ASSUMPTIONS = ['numpy comparison semantics for NaN', 'np.argsort returns a '
               'permutation; argsort of a permutation is its inverse']


def check(ctx):
    ctx.run(stats.check_bonferroni)
    ctx.run(stats.check_nan_mask, (stats.BON, stats.STU))
    ctx.run(patterns.check_patterns, ID)


def _variants(program):
    return _v.variants(program, ID)


def variants(program):
    from ..variants import patterns as _pv
    return list(_variants(program)) + _pv.variants(program, ID)
