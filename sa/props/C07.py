'''C07 - chi-square verdict.'''
from ..rules import stats, dataset, patterns
from ..variants import stats as _v

ID = 'C07'
CLAIM = '''
Structural clauses decided: VERD-TABLE - accept is true only on the ordering
p > alpha (NaN rejects); VERD-AGG - __bool__ is all(...) over the compared
datasets; SIGN-ERASE - every summand is a squared ratio; TAIL - the
probability is the upper tail (sf, or 1 - cdf); SAME-SOURCE - the degrees of
freedom count the very mask (self.nonzero_bins) that selects the summands,
and the p-value uses them; MASK-TABLE - with the ignore-empty option the
kept-bin predicate over (e1 vs 0) x (e2 vs 0) drops exactly (0, 0), without
the option every bin is kept; QUAD - the denominator is sqrt(e1**2 + e2**2).
VERD-AGG also rejects NaN-unsafe extremum aggregations (builtin min / max,
numpy nan-extrema). Not decided: the value of the sum, order independence as a floating-point
fact.
'''
ASSUMPTIONS = ['errors are non-negative (C08 DS-SIGN)', 'scipy chi2.sf is '
               'the survival function']


def check(ctx):
    ctx.run(stats.check_chi2)
    ctx.run(dataset.check_quad, kinds=('sub',), nan_strict=True)
    ctx.run(patterns.check_patterns, ID)


def _variants(program):
    return _v.variants(program, ID)


def variants(program):
    from ..variants import patterns as _pv
    return list(_variants(program)) + _pv.variants(program, ID)
