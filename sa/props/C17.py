'''C17 - browser selections return exactly the items that match.'''
import ast

from ..rules import browser, patterns
from .. import effects
from ..astutil import txt, call_name
from ..mutate import (Variant, edit_module, find_func, replace_first,
                      remove_stmt, insert_stmt, parse_stmts, parse_expr)

ID = 'C17'
CLAIM = '''
Structural clauses decided (eponine/browser.py): CTOR-PROP - every
Browser(...) built inside a Browser method receives data_key derived from
self.data_key and global_vars derived from self.globals. GUARDED-READ - Index
is a defaultdict wrapper, so every read self.index[k] / self.index[k][v] in a
query method must be guarded by a membership test on that very key (lexical
guard analysis: enclosing if / early return / and-chain / comprehension
filter) or iterate the mapping's own keys: otherwise a query inserts keys
into the index. COPY-IN / BRW-PURE - inter-procedural ownership and
write-effect analysis (sa/effects.py: flow-sensitive alias values per CFG
node, field-sensitive summaries of callees): the constructor does not write
into the items or globals it is given (the index builder annotates COPIES),
no query or merge method writes into self, the other browser, their items,
globals or index; Index.keep_only leaves its receiver alone. SELECT-SHAPE -
the criteria are folded with an intersection starting from all positions;
the selected ids are visited in sorted() order; required keys are tested
with issubset (positive) and forbidden keys with intersection (negated),
conjoined; filter_by and select_by apply the same selection (sibling
cross-check). SELECT-ONE - select_by evaluated over the number of matches
{0, 1, 2+}: NoItemBrowserError / the item / TooManyItemsBrowserError.
MERGE-SHAPE - merge concatenates self.content + other.content.
INDEX-BUILD - _build_index registers every item under all its keys but the
data key with the enumerate position, and stores that position in the item
BEFORE its keys are walked (or leaves 'index' out of the walk).
DIRECT-PICK - select_by does not subscript the content list with a value
supplied by the caller (negative indices wrap). INDEX-OWNER - content and index of a Browser are assigned in the constructor
only, the index from _build_index().
VALUE-ORDER - metadata values are ordered (sorted / min / max / sort) only
through a key= function: values of mixed types are not comparable.
Not decided: that the inverted index agrees with a naive scan of the items
(value-level); hashing of metadata values.
'''
ASSUMPTIONS = ['library calls not listed as mutators in sa/effects.py do not '
               'modify their arguments']
TECHNIQUE = ('static analysis: AST site queries, lexical guard analysis, '
             'inter-procedural ownership / write-effect dataflow on a CFG')

MOD = browser.MOD


def check(ctx):
    program = ctx.program
    ddf, ddp, idx, _ = effects.defaultdict_typing(program)
    analyzer = effects.Analyzer(program, dd_fields=ddf, dd_params=ddp,
                                index_types=idx)
    ctx.run(browser.check_ctor_prop)
    ctx.run(browser.check_guarded_read)
    ctx.run(browser.check_copy_in, analyzer)
    ctx.run(browser.check_select_shape)
    ctx.run(browser.check_select_one)
    ctx.run(browser.check_merge_shape)
    ctx.run(browser.check_brw_pure, analyzer)
    ctx.run(browser.check_index_build)
    ctx.run(browser.check_index_owner)
    ctx.run(browser.check_direct_pick)
    ctx.run(browser.check_value_order)
    ctx.count('functions_analysed', analyzer.functions_analysed)
    ctx.count('call_sites_resolved', analyzer.calls_resolved)
    ctx.run(patterns.check_patterns, ID)


def _variants(program):
    out = []

    def add(name, kind, editor, expect=None, quick=False, note=''):
        out.append(Variant(name, kind, edit_module(program, MOD, editor),
                           expect, quick, note))

    def _possible_values(keyed):
        def editor(tree):
            fun = find_func(tree, 'Browser._filter_items_id_by')
            for node in ast.walk(fun):
                if isinstance(node, ast.Call) and call_name(node) == \
                        'warning' and node.args and 'is not a valid' in \
                        txt(node.args[0]) and len(node.args) == 3:
                    node.args[0] = ast.Constant(
                        value='%s is not a valid %s. Possible ones are %s')
                    node.args.append(parse_expr(
                        'sorted(self.available_values(kwd), key=repr)'
                        if keyed else 'sorted(self.available_values(kwd))'))
                    return True
            return False
        return editor
    add('seed-warning-lists-the-sorted-values-of-the-key', 'mutant',
        _possible_values(False), {'VALUE-ORDER'},
        note='seed C17-r4-1: values of mixed types under one key make '
             'sorted() raise TypeError inside filter_by')
    add('twin-warning-lists-the-values-sorted-by-repr', 'twin',
        _possible_values(True))

    def drop_kw(meth, kw):
        def editor(tree):
            fun = find_func(tree, f'Browser.{meth}')
            for node in ast.walk(fun):
                if isinstance(node, ast.Call) and call_name(node) == \
                        'Browser':
                    before = len(node.keywords)
                    node.keywords = [k for k in node.keywords if k.arg != kw]
                    return len(node.keywords) != before
            return False
        return editor
    add('filter-drops-data-key', 'mutant', drop_kw('filter_by', 'data_key'),
        {'CTOR-PROP'}, quick=True, note='the F17 defect')
    add('merge-drops-data-key', 'mutant', drop_kw('merge', 'data_key'),
        {'CTOR-PROP'})
    add('filter-drops-globals', 'mutant', drop_kw('filter_by',
                                                  'global_vars'),
        {'CTOR-PROP'})

    def unguarded_value(tree):
        fun = find_func(tree, 'Browser._filter_items_id_by')
        return remove_stmt(fun, lambda s: isinstance(s, ast.If) and
                           'not in self.index[' in txt(s.test))
    add('value-read-unguarded', 'mutant', unguarded_value,
        {'GUARDED-READ', 'BRW-PURE'}, quick=True,
        note='a query with an unknown value inserts it into the index')

    def unguarded_key(tree):
        fun = find_func(tree, 'Browser.available_values')
        fun.body = [s for s in fun.body if isinstance(s, ast.Expr)] + \
            parse_stmts('return tuple(self.index[key].keys())')
        return True
    add('available-values-unguarded', 'mutant', unguarded_key,
        {'GUARDED-READ', 'BRW-PURE'})

    def no_copy(tree):
        fun = find_func(tree, 'Browser.__init__')
        return replace_first(
            fun, lambda n: isinstance(n, ast.ListComp),
            lambda n: parse_expr('list(content)'))
    add('items-not-copied', 'mutant', no_copy, {'COPY-IN'}, quick=True,
        note='the index builder then annotates the caller\'s dictionaries')

    def alias_content(tree):
        fun = find_func(tree, 'Browser.__init__')
        return replace_first(
            fun, lambda n: isinstance(n, ast.ListComp),
            lambda n: parse_expr('content'))
    add('content-stored-by-reference', 'mutant', alias_content, {'COPY-IN'})

    def globals_not_copied(tree):
        fun = find_func(tree, 'Browser.merge')
        return replace_first(
            fun, lambda n: isinstance(n, ast.Call) and txt(n) ==
            'self.globals.copy()', lambda n: n.func.value)
    add('merge-updates-own-globals', 'mutant', globals_not_copied,
        {'BRW-PURE'}, quick=True)

    def inplace_and(tree):
        fun = find_func(tree, 'Browser._filter_items_id_by')
        ok = replace_first(
            fun, lambda n: isinstance(n, ast.Assign) and txt(
                n.value).startswith('set(range('),
            lambda n: ast.Assign(targets=n.targets, value=parse_expr(
                'None'), lineno=n.lineno))
        if not ok:
            return False
        for node in ast.walk(fun):
            if isinstance(node, ast.Assign) and isinstance(
                    node.value, ast.BinOp) and isinstance(
                        node.value.op, ast.BitAnd):
                node.value = parse_expr(
                    'self.index[kwd][kwarg] if itemids is None else '
                    'itemids')
                idx = None
        # itemids aliases an index set, then is intersected in place
        for node in ast.walk(fun):
            if isinstance(node, ast.For):
                node.body.append(parse_stmts(
                    'itemids &= self.index[kwd][kwarg]')[0])
                return True
        return False
    add('index-set-intersected-in-place', 'mutant', inplace_and,
        {'BRW-PURE', 'SELECT-SHAPE'},
        note='the first matching index set is aliased and then narrowed in '
             'place by the following criteria')

    def union_acc(tree):
        fun = find_func(tree, 'Browser._filter_items_id_by')
        return replace_first(
            fun, lambda n: isinstance(n, ast.BinOp) and isinstance(
                n.op, ast.BitAnd) and 'self.index' in txt(n),
            lambda n: ast.BinOp(left=n.left, op=ast.BitOr(), right=n.right))
    add('criteria-united', 'mutant', union_acc, {'SELECT-SHAPE'})

    def unsorted(tree):
        fun = find_func(tree, 'Browser.filter_by')
        return replace_first(
            fun, lambda n: isinstance(n, ast.Call) and call_name(n) ==
            'sorted', lambda n: n.args[0])
    add('selection-in-set-order', 'mutant', unsorted, {'SELECT-SHAPE'},
        quick=True)

    def exclude_positive(tree):
        fun = find_func(tree, 'Browser.filter_by')
        return replace_first(
            fun, lambda n: isinstance(n, ast.UnaryOp) and isinstance(
                n.op, ast.Not) and 'sexcl' in txt(n), lambda n: n.operand)
    add('exclude-polarity', 'mutant', exclude_positive, {'SELECT-SHAPE'})

    def include_or(tree):
        fun = find_func(tree, 'Browser.select_by')
        return replace_first(
            fun, lambda n: isinstance(n, ast.BoolOp) and 'sincl' in txt(n),
            lambda n: ast.BoolOp(op=ast.Or(), values=n.values))
    add('include-or-exclude', 'mutant', include_or, {'SELECT-SHAPE'})

    def too_many_ge(tree):
        fun = find_func(tree, 'Browser.select_by')
        return replace_first(
            fun, lambda n: isinstance(n, ast.Compare) and 'len(litems)' in
            txt(n), lambda n: parse_expr('len(litems) > 2'))
    add('two-matches-return-first', 'mutant', too_many_ge, {'SELECT-ONE'},
        quick=True)

    def no_item_returns_none(tree):
        fun = find_func(tree, 'Browser.select_by')
        return replace_first(
            fun, lambda n: isinstance(n, ast.Raise) and 'NoItem' in txt(n),
            lambda n: ast.Return(value=ast.Constant(value=None)))
    add('no-match-returns-none', 'mutant', no_item_returns_none,
        {'SELECT-ONE'})

    def merge_swapped(tree):
        fun = find_func(tree, 'Browser.merge')
        return replace_first(
            fun, lambda n: isinstance(n, ast.BinOp) and txt(n) ==
            'self.content + other.content',
            lambda n: ast.BinOp(left=n.right, op=n.op, right=n.left))
    add('merge-other-first', 'mutant', merge_swapped, {'MERGE-SHAPE'})

    def keep_only_inplace(tree):
        fun = find_func(tree, 'Index.keep_only')
        return replace_first(
            fun, lambda n: isinstance(n, ast.Assign) and txt(
                n.targets[0]) == 'tmpset',
            lambda n: parse_stmts('kset &= ids\ntmpset = kset')[0])
    add('keep-only-narrows-in-place', 'mutant', keep_only_inplace,
        {'BRW-PURE'})

    def filter_only_when_several(tree):
        fun = find_func(tree, 'Browser.select_by')
        doc = [s_ for s_ in fun.body if isinstance(s_, ast.Expr) and
               isinstance(s_.value, ast.Constant)]
        rest = [s_ for s_ in fun.body if s_ not in doc]
        keep = [s_ for s_ in rest if isinstance(s_, ast.If)]
        fun.body = doc + parse_stmts(
            'respids = self._filter_items_id_by(**kwargs)\n'
            'litems = [self.content[i] for i in sorted(respids)]\n'
            'if len(litems) > 1 and (include or exclude):\n'
            '    sincl, sexcl = set(include), set(exclude)\n'
            '    litems = [item for item in litems if sincl.issubset(item) '
            'and not sexcl.intersection(item)]\n') + keep + parse_stmts(
                'return litems[0]')
        return True
    add('include-exclude-skipped-for-a-single-candidate', 'mutant',
        filter_only_when_several, {'SELECT-SHAPE'},
        note='seeded C17-2: a single keyword match is returned without '
             'looking at its required / forbidden keys')

    def filter_only_when_asked(tree):
        fun = find_func(tree, 'Browser.select_by')
        doc = [s_ for s_ in fun.body if isinstance(s_, ast.Expr) and
               isinstance(s_.value, ast.Constant)]
        rest = [s_ for s_ in fun.body if s_ not in doc]
        keep = [s_ for s_ in rest if isinstance(s_, ast.If)]
        fun.body = doc + parse_stmts(
            'respids = self._filter_items_id_by(**kwargs)\n'
            'litems = [self.content[i] for i in sorted(respids)]\n'
            'if include or exclude:\n'
            '    sincl, sexcl = set(include), set(exclude)\n'
            '    litems = [item for item in litems if sincl.issubset(item) '
            'and not sexcl.intersection(item)]\n') + keep + parse_stmts(
                'return litems[0]')
        return True
    add('twin-filter-only-when-include-or-exclude-given', 'twin',
        filter_only_when_asked)

    def reject_in_place(tree):
        fun = find_func(tree, 'Browser._filter_items_id_by')
        ok = replace_first(
            fun, lambda n: isinstance(n, ast.Assign) and txt(
                n.value).startswith('set(range('),
            lambda n: ast.Assign(targets=n.targets, value=parse_expr(
                'None'), lineno=n.lineno))
        ok = ok and replace_first(
            fun, lambda n: isinstance(n, ast.BinOp) and isinstance(
                n.op, ast.BitAnd) and 'self.index' in txt(n),
            lambda n: parse_expr('self.index[kwd][kwarg] if itemids is None '
                                 'else itemids & self.index[kwd][kwarg]'))
        fun2 = find_func(tree, 'Browser.filter_by')
        doc = [s_ for s_ in fun2.body if isinstance(s_, ast.Expr) and
               isinstance(s_.value, ast.Constant)]
        fun2.body = doc + parse_stmts(
            'respids = self._filter_items_id_by(**kwargs)\n'
            'if include or exclude:\n'
            '    sincl, sexcl = set(include), set(exclude)\n'
            '    respids -= {i for i in respids if not sincl.issubset('
            'self.content[i]) or sexcl.intersection(self.content[i])}\n'
            'lresp = [self.content[i] for i in sorted(respids)]\n'
            'return Browser(lresp, data_key=self.data_key, '
            'global_vars=self.globals)')
        return ok
    add('rejected-ids-removed-from-the-index-set', 'mutant',
        reject_in_place, {'BRW-PURE'},
        note='seeded C17-1: two cooperating sites - the id set of a single '
             'criterion is the index set itself, filter_by then removes the '
             'rejected ids in place')

    # ---- twins
    def and_equals(tree):
        fun = find_func(tree, 'Browser._filter_items_id_by')
        return replace_first(
            fun, lambda n: isinstance(n, ast.Assign) and isinstance(
                n.value, ast.BinOp) and isinstance(n.value.op, ast.BitAnd),
            lambda n: ast.AugAssign(target=n.targets[0], op=ast.BitAnd(),
                                    value=n.value.right))
    add('twin-augmented-intersection', 'twin', and_equals,
        note='itemids is a fresh set: &= is harmless')

    def get_form(tree):
        fun = find_func(tree, 'Browser.available_values')
        fun.body = [s for s in fun.body if isinstance(s, ast.Expr)] + \
            parse_stmts('if key not in self.index:\n    return ()\n'
                        'return tuple(self.index[key].keys())')
        return True
    add('twin-early-return-guard', 'twin', get_form)

    def dict_copy(tree):
        fun = find_func(tree, 'Browser.__init__')
        return replace_first(
            fun, lambda n: isinstance(n, ast.ListComp),
            lambda n: parse_expr('[dict(r) for r in content]'))
    add('twin-dict-constructor-copy', 'twin', dict_copy)

    def kw_positional(tree):
        fun = find_func(tree, 'Browser.filter_by')
        for node in ast.walk(fun):
            if isinstance(node, ast.Call) and call_name(node) == 'Browser':
                kws = {k.arg: k.value for k in node.keywords}
                node.args = [node.args[0], kws['data_key'],
                             kws['global_vars']]
                node.keywords = []
                return True
        return False
    add('twin-positional-arguments', 'twin', kw_positional)
    def index_stored_late(tree):
        # seed C17-r2-3
        fun = find_func(tree, 'Browser._build_index')
        loop = next(n for n in ast.walk(fun) if isinstance(n, ast.For)
                    and 'content' in txt(n.iter))
        store = next((s_ for s_ in loop.body if isinstance(s_, ast.Assign)
                      and "'index'" in txt(s_.targets[0])), None)
        if store is None:
            return False
        loop.body.remove(store)
        loop.body.append(store)
        loop.body.append(parse_stmts("index['index'][ielt].add(ielt)")[0])
        return True
    add('seed-position-stored-after-the-keys-are-indexed', 'mutant',
        index_stored_late, {'INDEX-BUILD'},
        note='items of a sub-browser are indexed under their old position '
             'too')

    def index_apart(tree):
        fun = find_func(tree, 'Browser._build_index')
        loop = next(n for n in ast.walk(fun) if isinstance(n, ast.For)
                    and 'content' in txt(n.iter))
        loop.body[:] = parse_stmts(
            "for key in elt:\n"
            "    if key != self.data_key and key != 'index':\n"
            "        index[key][elt[key]].add(ielt)\n"
            "elt['index'] = ielt\n"
            "index['index'][ielt].add(ielt)")
        return True
    add('twin-position-registered-apart', 'twin', index_apart)

    def _fast_select(guard):
        def editor(tree):
            fun = find_func(tree, 'Browser.select_by')
            pos = 1 if isinstance(fun.body[0], ast.Expr) else 0
            fun.body[pos:pos] = parse_stmts(
                "if list(kwargs) == ['index'] and not include and "
                "not exclude:\n"
                "    ind = kwargs['index']\n"
                f"    if isinstance(ind, int){guard}:\n"
                "        try:\n"
                "            return self.content[ind]\n"
                "        except IndexError:\n"
                "            raise NoItemBrowserError('No item "
                "corresponding to the selection.') from None")
            return True
        return editor
    add('seed-select-by-index-picks-the-item-directly', 'mutant',
        _fast_select(''), {'DIRECT-PICK'},
        note='seed C17-r3-2: select_by(index=-1) returns the last item')
    add('twin-select-by-index-fast-path-for-valid-positions', 'twin',
        _fast_select(' and 0 <= ind < len(self.content)'),
        note='undecided is allowed, an alarm is not')

    def sub_browser_derived_index(tree):
        # seed C17-r3-1 (reduced): index of the sub-browser derived from the
        # parent's index instead of rebuilt
        fun = find_func(tree, 'Browser.filter_by')
        for idx_, stmt in enumerate(fun.body):
            if isinstance(stmt, ast.Return) or (
                    isinstance(stmt, ast.Assign) and
                    'Browser(' in txt(stmt.value)):
                name = txt(stmt.targets[0]) if isinstance(
                    stmt, ast.Assign) else None
                if name is None:
                    return False
                fun.body.insert(idx_ + 1, parse_stmts(
                    f'{name}.index = self.index.keep_only(set(respids))')[0])
                return True
        return False
    add('seed-sub-browser-index-derived-from-the-parent', 'mutant',
        sub_browser_derived_index, {'INDEX-OWNER'})

    return out


def variants(program):
    from ..variants import patterns as _pv
    return list(_variants(program)) + _pv.variants(program, ID)
