'''C05 - Student verdict.'''
from ..rules import stats, dataset, patterns
from ..variants import stats as _v

ID = 'C05'
CLAIM = '''
Structural clauses decided: VERD-TABLE - the per-bin accept of
TestResultStudent is evaluated over the four orderings {lt, eq, gt,
unordered(NaN)} of |t| against the threshold and must be true on lt only (NaN
fails closed); same for the p-value decision (true on gt only); SIGN-ERASE -
the statistic reaching the comparison passed fabs/abs/square (symmetry);
VERD-AGG - __bool__ is a positive for-all aggregation over bins and datasets;
VERD-DEP - no return of test_alpha / oracles / __bool__ / test_pvalue is a
constant guarded by something unrelated to the recorded statistic (the three
views agree); SIDED - the quantile is taken at alpha/2 and the p-value
doubles the upper tail of |t|; NAN-BOTH - a passing constant replaces the
statistic only under a conjunction of NaN tests on BOTH datasets; QUAD - the
error of the difference is sqrt(e1**2 + e2**2).
SCALE-FREE - the special cases of the statistic are selected by exact
comparisons with zero, no absolute tolerance (invariance under rescaling);
VERD-AGG also rejects NaN-unsafe extremum aggregations (builtin min / max).
VERD-TABLE also covers comparisons of the statistic with the threshold written
outside the accept function in a verdict method (counting failing bins): the
table must be the accept table or its exact complement.  VERD-AGG / VERD-DEP
understand the early-exit spelling (for ..: if <fails>: return False; return
True).  LAW-GUARD - the normal law is reached only on paths where `ndf is
None` holds, and Student-law calls receive ndf itself.  QUAD is NaN-strict:
hypot(inf, NaN) = inf masks an undefined error.
SIDED follows module helpers and requires the level to reach them unrounded;
NAN-MASK - no NaN-ignoring numpy function in student.py; STAT-DTYPE - the statistic is not stored into an array allocated with the
dtype of the input data.
Not decided: numerical values of t, quantile, p-value; monotonicity and scale
invariance as numeric facts.
'''
ASSUMPTIONS = ['numpy comparison semantics: every ordered comparison with '
               'NaN is false, != is true',
               'scipy.stats ppf/sf are the quantile / survival functions']


def check(ctx):
    ctx.run(stats.check_student)
    ctx.run(dataset.check_quad, kinds=('sub',), nan_strict=True)
    ctx.run(patterns.check_patterns, ID)


def _variants(program):
    return _v.variants(program, ID)


def variants(program):
    from ..variants import patterns as _pv
    return list(_variants(program)) + _pv.variants(program, ID)
