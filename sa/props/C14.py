'''C14 - persisted environments: a bad file means not-done, not an abort.'''
import ast

from ..rules import persist
from ..astutil import call_name, txt, walk_local
from ..mutate import (Variant, edit_module, find_func, replace_first,
                      parse_stmts)
from ..variants import sched as _sched

ID = 'C14'
CLAIM = '''
Structural clauses decided: EXC-COVER - every pickle.load(s) reachable from
cambronne.common.read_env (call graph through resolved repo callees, nested
functions included) is protected, at its own site or at a call site of the
chain, by handlers that cover each failure class of unpickling a damaged
stream {EOFError, UnpicklingError, AttributeError, ImportError, IndexError}
and OSError for the open; the covering handler neither re-raises nor returns
an object (effect on the exception CLASS, independent of the byte offset of
the truncation). MERGE-DONE - values read from disk flow only into the merge
function, whose every store is reached only through a status == DONE test
(CFG paths); no bulk update. RUN-PATH - the run command obtains its initial
environment from read_env.
Not decided: pickle round-trip equality of what was written; atomicity of the
write (the property does not need it: a bad file means not-done).
'''
ASSUMPTIONS = [
    'the failure classes of unpickling a truncated/damaged stream are the '
    'ones the pickle documentation lists; other classes raised by custom '
    '__setstate__/__reduce__ code of payload objects are not modelled',
]


def check(ctx):
    persist.check_exc_cover(ctx)
    persist.check_merge_done(ctx)
    func = ctx.program.func(
        'valjean.cambronne.commands.run:RunCommand.execute')
    src = {}
    for node in walk_local(func.node):
        if isinstance(node, ast.Assign) and isinstance(node.value, ast.Call) \
                and isinstance(node.targets[0], ast.Name):
            src[node.targets[0].id] = call_name(node.value)
    found = False
    for node in walk_local(func.node):
        if isinstance(node, ast.Call) and call_name(node) == 'schedule':
            for kwd in node.keywords:
                if kwd.arg == 'env':
                    found = True
                    ctx.decide('RUN-PATH', func,
                               f'schedule(env={txt(kwd.value)}) comes from '
                               f'read_env',
                               src.get(txt(kwd.value)) == 'read_env',
                               at=func.where(node))
    ctx.floor('RUN-PATH', int(found), 1, 'schedule(env=...) in the run '
              'command')


def variants(program):
    out = [v for v in _sched.variants(program, ID)]
    envmod = 'valjean.cosette.env'

    def narrow(tree):
        fun = find_func(tree, 'Env.from_file')
        for node in ast.walk(fun):
            if isinstance(node, ast.ExceptHandler) and node.type is not None \
                    and 'EOFError' in txt(node.type) and isinstance(
                        node.type, ast.Tuple):
                node.type.elts = [e for e in node.type.elts
                                  if 'EOFError' not in txt(e)]
                return True
        return False
    out.append(Variant('handler-forgets-EOFError', 'mutant',
                       edit_module(program, envmod, narrow), {'EXC-COVER'},
                       quick=True))

    def narrow2(tree):
        fun = find_func(tree, 'Env.from_file')
        for node in ast.walk(fun):
            if isinstance(node, ast.ExceptHandler) and node.type is not None \
                    and 'UnpicklingError' in txt(node.type) and isinstance(
                        node.type, ast.Tuple):
                node.type.elts = [e for e in node.type.elts
                                  if 'UnpicklingError' not in txt(e)]
                return True
        return False
    out.append(Variant('handler-forgets-UnpicklingError', 'mutant',
                       edit_module(program, envmod, narrow2), {'EXC-COVER'}))

    def reraise(tree):
        fun = find_func(tree, 'Env.from_file')
        for node in ast.walk(fun):
            if isinstance(node, ast.ExceptHandler) and node.type is not None \
                    and 'EOFError' in txt(node.type):
                node.body = [s for s in node.body
                             if not isinstance(s, ast.Return)] + \
                    parse_stmts('raise')
                return True
        return False
    out.append(Variant('handler-reraises', 'mutant',
                       edit_module(program, envmod, reraise), {'EXC-COVER'}))

    def second_loader(tree):
        # a new unprotected unpickling site on the read path
        fun = find_func(tree, 'read_env')
        fun.body[0:0] = parse_stmts(
            'import pickle\n'
            'def _peek(path):\n'
            '    with open(path, "rb") as fil:\n'
            '        return pickle.load(fil)\n')
        for node in ast.walk(fun):
            if isinstance(node, ast.For):
                node.body[0:0] = parse_stmts(
                    'LOGGER.debug("%s", _peek(str(Path(root) / task_name '
                    '/ filename)))')
                return True
        return False
    out.append(Variant('new-unprotected-loader', 'mutant',
                       edit_module(program, 'valjean.cambronne.common',
                                   second_loader), {'EXC-COVER'}))

    def catch_exception(tree):
        fun = find_func(tree, 'Env.from_file')
        for node in ast.walk(fun):
            if isinstance(node, ast.ExceptHandler) and node.type is not None \
                    and 'EOFError' in txt(node.type):
                node.type = ast.Name(id='Exception', ctx=ast.Load())
                return True
        return False
    out.append(Variant('twin-catch-Exception', 'twin',
                       edit_module(program, envmod, catch_exception)))
    return out
