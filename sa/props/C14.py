'''C14 - persisted environments: a bad file means not-done, not an abort.'''
import ast

from ..rules import persist, patterns
from ..astutil import call_name, txt, walk_local
from ..mutate import (Variant, edit_module, find_func, replace_first, parse_expr,
                      parse_stmts)
from ..variants import sched as _sched

ID = 'C14'
CLAIM = '''
Structural clauses decided: EXC-COVER - every pickle.load(s) reachable from
cambronne.common.read_env (call graph through resolved repo callees, nested
functions included) is protected, at its own site or at a call site of the
chain, by handlers that cover each failure class of unpickling a damaged
stream {EOFError, UnpicklingError, AttributeError, ImportError, IndexError}
and OSError for the open; the covering handler neither re-raises nor returns
an object (effect on the exception CLASS, independent of the byte offset of
the truncation). MERGE-DONE - values read from disk flow only into the merge
function, whose every store is reached only through a status == DONE test
(CFG paths); no bulk update. RUN-PATH - the run command obtains its initial
environment from read_env.
WRITE-ALL - the writer (write_env) visits every entry and skips one only for
lack of an output directory, never on its status (a task that is not DONE any
more must overwrite the file of an earlier run). WRITE-INVALIDATE -
Env.to_file opens the destination path itself in 'wb' mode (truncation
first) and does not rename a side file over it: an interrupted write leaves
an unreadable file, i.e. not-done, never the stale entry of an earlier run
(the property quantifies over write / crash-during-write / read sequences).
READ-PATH - the path read_env hands to Env.from_file is composed from root,
task name and file name, never obtained by glob / fnmatch / regular-expression
matching on them. READ-FAITHFUL - the reader unpickles with pickle.load or an Unpickler whose
find_class / persistent_load never raise (it accepts what the writer wrote).
READ-NORAISE - exception-escape analysis below read_env: no explicit raise of
a reached repo function leaves it. Not decided: pickle round-trip equality of what was written.
'''
ASSUMPTIONS = [
    'the failure classes of unpickling a truncated/damaged stream are the '
    'ones the pickle documentation lists; other classes raised by custom '
    '__setstate__/__reduce__ code of payload objects are not modelled',
]


def check(ctx):
    ctx.run(persist.check_exc_cover)
    ctx.run(persist.check_merge_done)
    ctx.run(persist.check_write_all)
    ctx.run(persist.check_write_invalidates)
    ctx.run(persist.check_read_path)
    ctx.run(persist.check_read_noraise)
    func = ctx.program.func(
        'valjean.cambronne.commands.run:RunCommand.execute')
    src = {}
    for node in walk_local(func.node):
        if isinstance(node, ast.Assign) and isinstance(node.value, ast.Call) \
                and isinstance(node.targets[0], ast.Name):
            src[node.targets[0].id] = call_name(node.value)
    found = False
    for node in walk_local(func.node):
        if isinstance(node, ast.Call) and call_name(node) == 'schedule':
            for kwd in node.keywords:
                if kwd.arg == 'env':
                    found = True
                    origin = src.get(txt(kwd.value))
                    if isinstance(kwd.value, ast.Call):
                        origin = call_name(kwd.value)
                    # read_env: holds; a fresh environment or none at all:
                    # violated; bound in a way this rule does not read (a
                    # context manager, another loader): undecided
                    fresh = origin in ('Env', 'dict', 'copy') or (
                        isinstance(kwd.value, ast.Constant)) or (
                            isinstance(kwd.value, ast.Name) and not any(
                                isinstance(n, ast.Name) and
                                n.id == kwd.value.id and
                                isinstance(n.ctx, ast.Store)
                                for n in walk_local(func.node)))
                    ctx.decide('RUN-PATH', func,
                               f'schedule(env={txt(kwd.value)}) comes from '
                               f'read_env',
                               True if origin == 'read_env' else
                               False if fresh else None,
                               at=func.where(node))
    ctx.floor('RUN-PATH', int(found), 1, 'schedule(env=...) in the run '
              'command')
    ctx.run(patterns.check_patterns, ID)


def _variants(program):
    out = [v for v in _sched.variants(program, ID)]
    envmod = 'valjean.cosette.env'

    def _compressed(caught):
        def editor(tree):
            fun = find_func(tree, 'Env.from_file')
            tree.body.insert(next(i for i, n in enumerate(tree.body)
                                  if isinstance(n, ast.Import)),
                             parse_stmts('import zlib')[0])
            done = False
            for node in ast.walk(fun):
                if isinstance(node, ast.Return) and isinstance(
                        node.value, ast.Call) and txt(node.value.func) == \
                        'pickle.load':
                    arg = txt(node.value.args[0])
                    node.value = parse_expr(
                        f'pickle.loads(zlib.decompress({arg}.read()))')
                    done = True
                if caught and isinstance(node, ast.ExceptHandler) and \
                        isinstance(node.type, ast.Tuple) and 'EOFError' in \
                        txt(node.type):
                    node.type.elts.append(parse_expr('zlib.error'))
            return done
        return editor
    out.append(Variant('seed-env-file-compressed-zlib-error-not-caught',
                       'mutant', edit_module(program, envmod,
                                             _compressed(False)),
                       {'EXC-COVER'}, False,
                       'seed C14-r4-1: a truncated file makes '
                       'zlib.decompress raise zlib.error, which read_env '
                       'lets through (the writer side is irrelevant here)'))
    out.append(Variant('twin-env-file-compressed-zlib-error-caught', 'twin',
                       edit_module(program, envmod, _compressed(True)),
                       None, False, ''))

    def backup_fallback(tree):
        fun = find_func(tree, 'read_env')
        for node in ast.walk(fun):
            if isinstance(node, ast.For):
                for idx, stmt in enumerate(node.body):
                    if isinstance(stmt, ast.Assign) and 'from_file' in \
                            txt(stmt.value):
                        node.body.insert(idx + 1, parse_stmts(
                            'if persisted_env is None:\n'
                            "    persisted_env = Env.from_file(task_file + "
                            "'.bak', fmt=fmt)")[0])
                        return True
        return False
    out.append(Variant('seed-unreadable-file-replaced-by-its-backup',
                       'mutant', edit_module(
                           program, 'valjean.cambronne.common',
                           backup_fallback), {'READ-PATH'}, False,
                       'seed C14-r4-2: a damaged file brings back the entry '
                       'of an earlier run'))

    def narrow(tree):
        fun = find_func(tree, 'Env.from_file')
        for node in ast.walk(fun):
            if isinstance(node, ast.ExceptHandler) and node.type is not None \
                    and 'EOFError' in txt(node.type) and isinstance(
                        node.type, ast.Tuple):
                node.type.elts = [e for e in node.type.elts
                                  if 'EOFError' not in txt(e)]
                return True
        return False
    out.append(Variant('handler-forgets-EOFError', 'mutant',
                       edit_module(program, envmod, narrow), {'EXC-COVER'},
                       quick=True))

    def narrow2(tree):
        fun = find_func(tree, 'Env.from_file')
        for node in ast.walk(fun):
            if isinstance(node, ast.ExceptHandler) and node.type is not None \
                    and 'UnpicklingError' in txt(node.type) and isinstance(
                        node.type, ast.Tuple):
                node.type.elts = [e for e in node.type.elts
                                  if 'UnpicklingError' not in txt(e)]
                return True
        return False
    out.append(Variant('handler-forgets-UnpicklingError', 'mutant',
                       edit_module(program, envmod, narrow2), {'EXC-COVER'}))

    common = 'valjean.cambronne.common'

    def read_by_glob(tree):
        # seed C14-r2-2: the files are found with a glob pattern
        fun = find_func(tree, 'read_env')
        for node in ast.walk(fun):
            if isinstance(node, ast.For) and any(
                    'from_file' in txt(s_) for s_ in node.body):
                pos = fun.body.index(node)
                fun.body.insert(pos, parse_stmts(
                    'import glob as _glob\n'
                    'task_files = {Path(f).parent.name: f for f in '
                    '_glob.glob(str(Path(root) / "*" / filename))}')[1])
                fun.body.insert(pos, parse_stmts('import glob as _glob')[0])
                for idx, stmt in enumerate(node.body):
                    if isinstance(stmt, ast.Assign) and txt(
                            stmt.targets[0]) == 'task_file':
                        node.body[idx:idx + 1] = parse_stmts(
                            'task_file = task_files.get(task_name)\n'
                            'if task_file is None:\n'
                            '    continue')
                        return True
        return False
    out.append(Variant('seed-environment-files-found-by-glob', 'mutant',
                       edit_module(program, common, read_by_glob),
                       {'READ-PATH'}, note='root "output[v2]" or a task '
                       '".prepare": intact DONE entries are not read'))

    def read_by_listing(tree):
        fun = find_func(tree, 'read_env')
        for node in ast.walk(fun):
            if isinstance(node, ast.For) and any(
                    'from_file' in txt(s_) for s_ in node.body):
                for idx, stmt in enumerate(node.body):
                    if isinstance(stmt, ast.Assign) and txt(
                            stmt.targets[0]) == 'task_file':
                        node.body[idx:idx + 1] = parse_stmts(
                            'task_dir = Path(root) / task_name\n'
                            'task_file = str(task_dir / filename)')
                        return True
        return False
    out.append(Variant('twin-path-composed-in-two-steps', 'twin',
                       edit_module(program, common, read_by_listing)))

    def write_skips_on_clock(tree):
        # seed C14-r2-3: entries that "did not run since" are not rewritten
        fun = find_func(tree, 'write_env')
        fun.args.kwonlyargs.append(ast.arg(arg='since'))
        fun.args.kw_defaults.append(ast.Constant(value=None))
        for node in ast.walk(fun):
            if isinstance(node, ast.For) and any(
                    'to_file' in txt(s_) for s_ in node.body):
                for idx, stmt in enumerate(node.body):
                    if isinstance(stmt, ast.Assign) and txt(
                            stmt.targets[0]) == 'task_file':
                        node.body.insert(idx + 1, parse_stmts(
                            'if since is not None and subenv.get('
                            '"end_clock", since) < since and Path('
                            'task_file).is_file():\n'
                            '    continue')[0])
                        return True
        return False
    out.append(Variant('seed-write-skipped-for-tasks-that-did-not-run-again',
                       'mutant', edit_module(program, common,
                                             write_skips_on_clock),
                       {'WRITE-ALL'}))

    def _custom_unpickler(strict):
        def editor(tree):
            fun = find_func(tree, 'Env.from_file')
            done = replace_first(
                fun, lambda n: isinstance(n, ast.Call) and txt(n.func) ==
                'pickle.load',
                lambda n: parse_expr('EnvUnpickler(file_).load()')
                if txt(n.args[0]) == 'file_' else ast.Call(
                    func=ast.Attribute(value=ast.Call(
                        func=ast.Name(id='EnvUnpickler', ctx=ast.Load()),
                        args=n.args, keywords=[]), attr='load',
                        ctx=ast.Load()), args=[], keywords=[]))
            body = ('    def find_class(self, module, name):\n'
                    "        if module.partition('.')[0] not in ('builtins', "
                    "'collections', 'numpy', 'valjean'):\n"
                    "            raise pickle.UnpicklingError('not allowed')"
                    '\n        return super().find_class(module, name)\n'
                    ) if strict else (
                    '    def find_class(self, module, name):\n'
                    "        LOGGER.debug('global %s.%s', module, name)\n"
                    '        return super().find_class(module, name)\n')
            pos = next(i for i, n in enumerate(tree.body)
                       if isinstance(n, ast.ClassDef))
            tree.body[pos:pos] = parse_stmts(
                'class EnvUnpickler(pickle.Unpickler):\n' + body)
            return done
        return editor
    out.append(Variant('seed-reader-refuses-globals-outside-an-allow-list',
                       'mutant', edit_module(program, envmod,
                                             _custom_unpickler(True)),
                       {'READ-FAITHFUL'},
                       note='seed C14-r3-1: an intact entry holding a '
                       'Fraction is "damaged", the task is re-run for ever'))
    out.append(Variant('twin-reader-with-a-logging-unpickler', 'twin',
                       edit_module(program, envmod,
                                   _custom_unpickler(False))))

    def read_validates_names(tree):
        # seed C14-r3-2
        fun = find_func(tree, 'read_env')
        done = replace_first(
            fun, lambda n: isinstance(n, ast.BinOp) and txt(n) ==
            'Path(root) / task_name',
            lambda n: parse_expr('Path(root, sanitize_filename(task_name))'))
        tree.body.insert(1, parse_stmts(
            'from ..path import sanitize_filename')[0])
        return done
    out.append(Variant('seed-reader-validates-task-names', 'mutant',
                       edit_module(program, 'valjean.cambronne.common',
                                   read_validates_names), {'READ-NORAISE'},
                       note='a task named "suite/case-1" (legal without an '
                       'output directory) aborts the run'))

    def reraise(tree):
        fun = find_func(tree, 'Env.from_file')
        for node in ast.walk(fun):
            if isinstance(node, ast.ExceptHandler) and node.type is not None \
                    and 'EOFError' in txt(node.type):
                node.body = [s for s in node.body
                             if not isinstance(s, ast.Return)] + \
                    parse_stmts('raise')
                return True
        return False
    out.append(Variant('handler-reraises', 'mutant',
                       edit_module(program, envmod, reraise), {'EXC-COVER'}))

    def second_loader(tree):
        # a new unprotected unpickling site on the read path
        fun = find_func(tree, 'read_env')
        fun.body[0:0] = parse_stmts(
            'import pickle\n'
            'def _peek(path):\n'
            '    with open(path, "rb") as fil:\n'
            '        return pickle.load(fil)\n')
        for node in ast.walk(fun):
            if isinstance(node, ast.For):
                node.body[0:0] = parse_stmts(
                    'LOGGER.debug("%s", _peek(str(Path(root) / task_name '
                    '/ filename)))')
                return True
        return False
    out.append(Variant('new-unprotected-loader', 'mutant',
                       edit_module(program, 'valjean.cambronne.common',
                                   second_loader), {'EXC-COVER'}))

    def catch_exception(tree):
        fun = find_func(tree, 'Env.from_file')
        for node in ast.walk(fun):
            if isinstance(node, ast.ExceptHandler) and node.type is not None \
                    and 'EOFError' in txt(node.type):
                node.type = ast.Name(id='Exception', ctx=ast.Load())
                return True
        return False
    out.append(Variant('twin-catch-Exception', 'twin',
                       edit_module(program, envmod, catch_exception)))
    def write_only_done(tree):
        fun = find_func(tree, 'write_env')
        for node in ast.walk(fun):
            if isinstance(node, ast.For) and 'env.items()' in txt(node.iter):
                node.body[0:0] = parse_stmts(
                    "if subenv.get('status') != TaskStatus.DONE:\n"
                    "    continue")
                return True
        return False
    out.append(Variant('writer-skips-tasks-that-are-not-done', 'mutant',
                       edit_module(program, 'valjean.cambronne.common',
                                   write_only_done), {'WRITE-ALL'},
                       note='seeded C14-1: the stale DONE file of an '
                            'earlier run is never overwritten'))

    def write_then_rename(tree):
        fun = find_func(tree, 'Env.to_file')
        ok = replace_first(
            fun, lambda n: isinstance(n, ast.Call) and txt(n.func) == 'open'
            and n.args and txt(n.args[0]) == 'path',
            lambda n: ast.Call(func=n.func, args=[parse_stmts(
                "path + '.tmp'")[0].value] + n.args[1:],
                               keywords=n.keywords))
        if not ok:
            return False
        for node in ast.walk(fun):
            if isinstance(node, ast.Try):
                node.body.extend(parse_stmts(
                    "import os\nos.replace(path + '.tmp', path)"))
                return True
        return False
    out.append(Variant('write-to-side-file-then-rename', 'mutant',
                       edit_module(program, envmod, write_then_rename),
                       {'WRITE-INVALIDATE'},
                       note='seeded C14-2: an interrupted write keeps the '
                            'DONE entry of an earlier run alive'))
    def path_open_method(tree):
        fun = find_func(tree, 'Env.to_file')
        return replace_first(
            fun, lambda n: isinstance(n, ast.Call) and txt(n.func) == 'open'
            and n.args and txt(n.args[0]) == 'path',
            lambda n: ast.Call(func=ast.Attribute(
                value=parse_stmts('Path(path)')[0].value, attr='open',
                ctx=ast.Load()), args=n.args[1:], keywords=n.keywords))
    out.append(Variant('twin-destination-opened-through-pathlib', 'twin',
                       edit_module(program, envmod, path_open_method)))
    return out


def variants(program):
    from ..variants import patterns as _pv
    return list(_variants(program)) + _pv.variants(program, ID)
