'''Ownership / write-effect analysis (the `freshdom` of DESIGN.md).

Question answered: may function F modify an object that is reachable from
one of its parameters (the result it was asked to look at, `self`, an input
list ...)?  Flow-sensitive inside a function (forward dataflow on the CFG),
inter-procedural through summaries of resolved repo callees.

Abstract value of an expression = frozenset of triples (root, d, n):
  "after exactly n dereferences (subscript / attribute / iteration) through
   FRESH containers starting from this value one reaches an object that lies
   d dereferences below parameter `root`".
n == 0 means the value IS such a shared object.  The empty set is a value
that shares nothing with any parameter (fresh, or a constant).

  deref            (r, d, 0) -> (r, min(d+1, 2), 0) ; (r, d, n) -> (r, d, n-1)
  shallow copy     (r, d, 0) -> (r, min(d+1, 2), 1) ; (r, d, n) unchanged
  container of v   (r, d, n) -> (r, d, n+1)              (cap 3 = "far")
  deep copy / arithmetic / unknown library call -> {}

A WRITE (attribute / subscript store, augmented assignment, del, mutating
method, out=, implicit insertion by reading a defaultdict) through a value
holding (r, d, 0) is an effect on parameter r at depth d.

Alarm policy: the abstraction errs towards FEWER aliases where it must err
(unknown library functions return fresh values and do not mutate; receivers
of unknown type are not resolved by name if the name is a builtin container
method), so an effect is only reported with a concrete witness chain.
'''
import ast

from .astutil import call_name, receiver, txt, dotted
from .cfg import CFG, forward_dataflow
from .loader import FuncInfo, ClassInfo

FAR = 6
DCAP = 4

MUTATORS = {
    'append', 'extend', 'insert', 'remove', 'pop', 'clear', 'update',
    'setdefault', 'popitem', 'sort', 'reverse', 'add', 'discard',
    'intersection_update', 'difference_update', 'move_to_end',
    'symmetric_difference_update', 'fill', 'resize', 'put', 'itemset',
    'setflags', 'byteswap', 'partition', 'appendleft', 'popleft',
    'extendleft', 'rotate', '__setitem__', '__delitem__', '__iadd__',
}
# methods returning a view / the same storage
VIEW_METHODS = {'reshape', 'ravel', 'squeeze', 'transpose', 'view',
                'swapaxes', 'items', 'values', 'keys', 'get', '__iter__',
                'flat', 'diagonal', '__getitem__', 'most_common',
                'elements', 'setdefault', 'pop', 'popitem'}
VIEW_FUNCS = {'asarray', 'atleast_1d', 'atleast_2d', 'reshape', 'ravel',
              'squeeze', 'transpose', 'broadcast_to', 'asanyarray',
              'ascontiguousarray', 'moveaxis', 'swapaxes', 'expand_dims',
              'iter', 'reversed', 'enumerate', 'zip', 'chain', 'islice',
              'next', 'getattr', 'cast', 'filter', 'nditer',
              # numpy.ma accessors: the underlying data / mask, no copy
              'getdata', 'getmask', 'require', 'asfortranarray',
              'atleast_3d', 'real', 'imag'}
SHALLOW_COPY_FUNCS = {'list', 'tuple', 'set', 'frozenset', 'sorted', 'dict',
                      'OrderedDict', 'copy', 'deque', 'Counter', 'chain'}
NP_INPLACE = {'put', 'place', 'copyto', 'fill_diagonal', 'putmask',
              'shuffle', 'put_along_axis'}
BUILTIN_METHOD_NAMES = MUTATORS | VIEW_METHODS | {
    'copy', 'index', 'count', 'join', 'split', 'format', 'encode', 'strip',
    'startswith', 'endswith', 'lower', 'upper', 'replace', 'issubset',
    'issuperset', 'intersection', 'union', 'difference', 'tolist', 'astype',
    'sum', 'mean', 'all', 'any', 'min', 'max', 'item', 'nonzero', 'search',
    'match', 'group', 'write', 'read', 'close', 'name', 'title', 'isdigit',
    'fromkeys', 'cumsum', 'take', 'compress', 'dump', 'dumps', 'load',
    'loads', 'fingerprint', 'digest', 'hexdigest'}


# numpy.ma functions documented as "copy: if False modify `a` in place and
# return a view": position of the array argument
MA_INPLACE_NOCOPY = {'masked_where': 1, 'masked_equal': 0,
                     'masked_not_equal': 0, 'masked_greater': 0,
                     'masked_greater_equal': 0, 'masked_less': 0,
                     'masked_less_equal': 0, 'masked_inside': 0,
                     'masked_outside': 0, 'masked_invalid': 0,
                     'masked_values': 0, 'masked_object': 0,
                     'fix_invalid': 0}
NDARRAY_METHODS = {
    'all', 'any', 'argmax', 'argmin', 'argpartition', 'argsort', 'astype',
    'byteswap', 'choose', 'clip', 'compress', 'conj', 'conjugate', 'copy',
    'cumprod', 'cumsum', 'diagonal', 'dot', 'dump', 'dumps', 'fill',
    'flatten', 'getfield', 'item', 'itemset', 'max', 'mean', 'min',
    'newbyteorder', 'nonzero', 'partition', 'prod', 'ptp', 'put', 'ravel',
    'repeat', 'reshape', 'resize', 'round', 'searchsorted', 'setfield',
    'setflags', 'sort', 'squeeze', 'std', 'sum', 'swapaxes', 'take',
    'tobytes', 'tofile', 'tolist', 'tostring', 'trace', 'transpose', 'var',
    'view', 'filled', 'compressed', 'count', 'mask', 'data'}
_BUILTIN_TYPE_METHODS = set()
for _typ in (list, dict, set, frozenset, str, bytes, tuple, int, float,
             complex, bytearray, object):
    _BUILTIN_TYPE_METHODS |= {n for n in dir(_typ) if not n.startswith('__')}
NOT_BY_NAME = BUILTIN_METHOD_NAMES | NDARRAY_METHODS | _BUILTIN_TYPE_METHODS \
    | {'get', 'items', 'keys', 'values', 'write', 'read', 'close', 'open',
       'join', 'format', 'run', 'start', 'stop', 'put', 'add', 'do',
       'evaluate', 'data', 'name', 'info', 'debug', 'warning', 'error',
       'save', 'draw', 'plot', 'set', 'show'}


def deref(val, attr=None):
    out = set()
    for root, dep, lay, fld, hfl in val:
        if lay == 0:
            out.add((root, min(dep + 1, DCAP), 0,
                     attr if (dep == 0 and attr) else fld, None))
        elif hfl is not None and attr is not None and attr != hfl:
            # the shared part sits under another field of the fresh object
            continue
        elif lay >= FAR:
            out.add((root, dep, FAR, fld, None))
        else:
            out.add((root, dep, lay - 1, fld, None))
    return frozenset(out)


def shallow(val):
    out = set()
    for root, dep, lay, fld, hfl in val:
        if lay == 0:
            out.add((root, min(dep + 1, DCAP), 1, fld, None))
        else:
            out.add((root, dep, lay, fld, hfl))
    return frozenset(out)


def wrap(val, holder=None):
    return frozenset((r, d, min(n + 1, FAR), f, holder)
                     for r, d, n, f, _h in val)


EMPTY = frozenset()


def _immutable_operand(expr):
    '''The right operand of an augmented assignment is certainly a str or a
    number: a literal, an f-string, `%`-formatting / concatenation with a
    string literal, str.format / str.join on a literal.  (Assumption: `+=`
    with such an operand acts on a str / number, not on a list extended
    character by character.)'''
    if isinstance(expr, ast.Constant) and isinstance(
            expr.value, (str, int, float, complex, bytes)):
        return True
    if isinstance(expr, ast.JoinedStr):
        return True
    if isinstance(expr, ast.BinOp) and isinstance(expr.op, (ast.Add,
                                                            ast.Mod)):
        return _immutable_operand(expr.left) or (
            isinstance(expr.op, ast.Add) and _immutable_operand(expr.right))
    if isinstance(expr, ast.Call) and isinstance(expr.func, ast.Attribute) \
            and expr.func.attr in ('format', 'join') and isinstance(
                expr.func.value, ast.Constant) and isinstance(
                    expr.func.value.value, str):
        return True
    if isinstance(expr, ast.Call) and isinstance(expr.func, ast.Name) and \
            expr.func.id in ('str', 'repr', 'len', 'int', 'float'):
        return True
    return False


class Effect:
    __slots__ = ('root', 'depth', 'lineno', 'what', 'func', 'chain', 'kind',
                 'field')

    def __init__(self, root, depth, lineno, what, func, chain=(),
                 kind='write', field=None):
        self.field = field
        self.root = root
        self.depth = depth
        self.lineno = lineno
        self.what = what
        self.func = func
        self.chain = tuple(chain)
        self.kind = kind

    @property
    def key(self):
        return (self.root, self.field, self.what, self.func.key,
                tuple(c for c in self.chain))

    def describe(self):
        txt_ = f'{self.what} in {self.func.key} ' \
               f'({self.func.module.relpath}:{self.lineno})'
        if self.chain:
            txt_ += ' via ' + ' -> '.join(self.chain)
        return txt_


class Summary:
    def __init__(self, func):
        self.func = func
        self.effects = []       # Effect on own params
        self.returns = EMPTY    # value over own params
        self.undecided = []     # texts
        self.ddreads = {}       # text of a defaultdict-read note -> own roots
        self.fields = None      # __init__ only: what the new object holds
        self.field_map = {}     # __init__ only: field -> value at exit

    def write_depths(self):
        out = {}
        for eff in self.effects:
            cur = out.get(eff.root)
            if cur is None or eff.depth < cur[0]:
                out[eff.root] = (eff.depth, eff)
        return out


class Analyzer:
    '''Per-program cache of function summaries.'''

    def __init__(self, program, max_depth=4, dd_fields=None,
                 dd_params=None, index_types=None):
        self.program = program
        self.max_depth = max_depth
        self.cache = {}
        self.in_progress = set()
        self.dd_fields = dd_fields or set()      # attribute names
        self.dd_params = dd_params or {}         # func key -> {param names}
        self.index_types = index_types or set()  # attribute names typed
                                                 # like browser.Index
        self.calls_resolved = 0
        self.calls_unresolved = 0
        self.functions_analysed = 0
        self._field_types = {}
        self.properties = {}
        for cinfo in program.all_classes():
            for meth in cinfo.methods.values():
                if any(txt(d) in ('property', 'cached_property',
                                  'functools.cached_property')
                       for d in meth.node.decorator_list):
                    self.properties.setdefault(meth.name, []).append(meth)

    def field_type(self, cinfo, field):
        '''ClassInfo of self.<field> when every assignment of the field in
        the class hierarchy is a constructor call of one repo class.'''
        key = (cinfo.key, field)
        if key in self._field_types:
            return self._field_types[key]
        found = []
        for klass in self.program.mro(cinfo):
            for meth in klass.methods.values():
                for node in ast.walk(meth.node):
                    if isinstance(node, ast.Assign) and len(
                            node.targets) == 1 and isinstance(
                                node.targets[0], ast.Attribute) and \
                            node.targets[0].attr == field and isinstance(
                                node.targets[0].value, ast.Name) and \
                            node.targets[0].value.id == 'self':
                        typ = None
                        if isinstance(node.value, ast.Call):
                            res = self.program.resolve_name_expr(
                                meth.module, node.value.func, meth)
                            if isinstance(res, ClassInfo):
                                typ = res
                        found.append(typ)
        out = found[0] if found and found[0] is not None and all(
            t is found[0] for t in found) else None
        self._field_types[key] = out
        return out

    def summary(self, func, depth=0):
        if func.key in self.cache:
            return self.cache[func.key]
        if func.key in self.in_progress or depth > self.max_depth:
            return None
        self.in_progress.add(func.key)
        try:
            summ = _FuncAnalysis(self, func, depth).run()
        finally:
            self.in_progress.discard(func.key)
        self.cache[func.key] = summ
        self.functions_analysed += 1
        return summ


class _FuncAnalysis:
    def __init__(self, analyzer, func, depth, outer_env=None):
        self.an = analyzer
        self.program = analyzer.program
        self.func = func
        self.depth = depth
        self.summary = Summary(func)
        self.effect_keys = set()
        self.ret = set()
        self.outer_env = outer_env or {}
        self.local_types = self._local_types()
        self.dd_locals = self._dd_locals()

    # -- typing helpers ----------------------------------------------------

    def _local_types(self):
        '''name -> ClassInfo when every assignment of the name is a
        constructor call of one repo class.'''
        cands = {}
        node = self.func.node
        for sub in ast.walk(node):
            if isinstance(sub, ast.Assign) and len(sub.targets) == 1 and \
                    isinstance(sub.targets[0], ast.Name):
                name = sub.targets[0].id
                typ = None
                if isinstance(sub.value, ast.Call):
                    res = self.program.resolve_name_expr(
                        self.func.module, sub.value.func, self.func)
                    if isinstance(res, ClassInfo):
                        typ = res
                cands.setdefault(name, []).append(typ)
        return {n: ts[0] for n, ts in cands.items()
                if ts[0] is not None and all(t is ts[0] for t in ts)}

    def _dd_locals(self):
        names = set(self.an.dd_params.get(self.func.key, ()))
        for sub in ast.walk(self.func.node):
            if isinstance(sub, ast.Assign) and len(sub.targets) == 1 and \
                    isinstance(sub.targets[0], ast.Name) and \
                    self._is_dd_expr(sub.value, names):
                names.add(sub.targets[0].id)
        return names

    def _is_dd_expr(self, expr, names=None):
        names = self.dd_locals if names is None else names
        if isinstance(expr, ast.Call) and call_name(expr) == 'defaultdict':
            return True
        if isinstance(expr, ast.Name):
            return expr.id in names
        if isinstance(expr, ast.Attribute):
            return expr.attr in self.an.dd_fields
        if isinstance(expr, ast.Subscript):
            # element of an Index-like two-level defaultdict
            base = expr.value
            return isinstance(base, ast.Attribute) and \
                base.attr in self.an.index_types or (
                    isinstance(base, ast.Name) and
                    base.id in self.an.index_types)
        return False

    # -- driver --------------------------------------------------------------

    def run(self):
        node = self.func.node
        cfg = CFG(node, may_raise=lambda n: False)
        init = dict(self.outer_env)
        args = node.args
        params = [a.arg for a in args.posonlyargs + args.args]
        for idx, name in enumerate(params):
            init[name] = frozenset({(idx, 0, 0, None, None)})
        base = len(params)
        if args.vararg:
            init[args.vararg.arg] = frozenset({(base, 0, 1, None, None)})
            base += 1
        for kwo in args.kwonlyargs:
            init[kwo.arg] = frozenset({(base, 0, 0, None, None)})
            base += 1
        if args.kwarg:
            init[args.kwarg.arg] = frozenset({(base, 0, 1, None, None)})
        self.param_names = params + ([args.vararg.arg] if args.vararg
                                     else []) + \
            [a.arg for a in args.kwonlyargs] + \
            ([args.kwarg.arg] if args.kwarg else [])
        init = _freeze(init)

        def transfer(nod, state, label):
            return self._transfer(nod, state, label)

        states = forward_dataflow(cfg, init, transfer, _join)
        self.summary.returns = frozenset(
            v for v in self.ret if isinstance(v[0], int))
        if self.func.name == '__init__' and params:
            held = set()
            final = dict(states.get(cfg.exit.id, ()))
            for name, val in final.items():
                if name == params[0]:
                    held |= {v for v in val if v[:3] != (0, 0, 0)}
                elif name.startswith(params[0] + '.'):
                    held |= wrap(val)
            self.summary.fields = frozenset(
                v for v in held if isinstance(v[0], int) and v[0] != 0)
            self.summary.field_map = {
                name.split('.', 1)[1]: val for name, val in final.items()
                if name.startswith(params[0] + '.')}
        return self.summary

    # -- statement transfer ------------------------------------------------

    def _transfer(self, nod, state, label):
        env = dict(state)
        stmt = nod.ast
        kind = nod.kind
        if kind == 'stmt':
            self._stmt(stmt, env)
        elif kind in ('test',):
            self.ev(stmt, env)
        elif kind == 'return':
            if stmt.value is not None:
                self.ret |= set(self.ev(stmt.value, env))
        elif kind == 'raisestmt':
            exc = getattr(stmt, 'exc', None) or getattr(stmt, 'msg', None)
            if exc is not None:
                self.ev(exc, env)
        elif kind == 'iter':
            val = self.ev(stmt.iter, env)
            if label == 'loop':
                self._bind(stmt.target, deref(self._iterview(stmt.iter,
                                                             val)), env,
                           from_iter=True)
        elif kind == 'with':
            for item in stmt.items:
                val = self.ev(item.context_expr, env)
                if item.optional_vars is not None:
                    self._bind(item.optional_vars, val, env)
        elif kind == 'handler':
            if getattr(stmt, 'name', None):
                env[stmt.name] = EMPTY
        return _freeze(env)

    def _iterview(self, iter_expr, val):
        return val

    def _stmt(self, stmt, env):
        if isinstance(stmt, ast.Assign):
            val = self.ev(stmt.value, env)
            for tgt in stmt.targets:
                self._assign(tgt, stmt.value, val, env, stmt)
        elif isinstance(stmt, ast.AnnAssign):
            if stmt.value is not None:
                val = self.ev(stmt.value, env)
                self._assign(stmt.target, stmt.value, val, env, stmt)
        elif isinstance(stmt, ast.AugAssign):
            val = self.ev(stmt.value, env)
            tgt = stmt.target
            if isinstance(tgt, ast.Name) and _immutable_operand(stmt.value):
                # s += '.' + x ; n += 1: the left operand is a str / number,
                # the name is re-bound to a new immutable object
                env[tgt.id] = EMPTY
            elif isinstance(tgt, ast.Name):
                cur = env.get(tgt.id, EMPTY)
                # in-place operator on a mutable shared object
                self._write(cur, stmt, f'in-place {txt(stmt)[:60]}')
                env[tgt.id] = cur | (wrap(val) if isinstance(
                    stmt.op, ast.Add) else EMPTY)
            else:
                base = self.ev(tgt.value, env)
                self._write(base, stmt, f'store {txt(stmt)[:60]}')
                # x.a += ... also rewrites the element in place
                elem = self.ev(_as_load(tgt), env)
                self._write(elem, stmt, f'in-place {txt(stmt)[:60]}')
        elif isinstance(stmt, ast.Delete):
            for tgt in stmt.targets:
                if isinstance(tgt, (ast.Subscript, ast.Attribute)):
                    base = self.ev(tgt.value, env)
                    self._write(base, stmt, f'del {txt(tgt)[:60]}')
                elif isinstance(tgt, ast.Name):
                    env.pop(tgt.id, None)
        elif isinstance(stmt, ast.Expr):
            self.ev(stmt.value, env)
        elif isinstance(stmt, (ast.FunctionDef, ast.AsyncFunctionDef)):
            self._nested_def(stmt, env)
            env[stmt.name] = EMPTY
        # Pass, Import, Global ...: nothing

    def _nested_def(self, stmt, env):
        '''A nested function is analysed with the enclosing environment as
        its free variables; its effects on our roots are ours (it is defined
        to be called).'''
        info = self.func.module.functions.get(
            self.func.qual + '.' + stmt.name)
        if info is None:
            return
        sub = _FuncAnalysis(self.an, info, self.depth + 1,
                            outer_env=_outer_only(env))
        # parameters of the nested function are unknown: use fresh roots
        # that cannot collide with ours (strings)
        summ = sub.run_nested()
        for eff in summ.effects:
            if isinstance(eff.root, int):
                self._record(Effect(eff.root, eff.depth, eff.lineno,
                                    eff.what, eff.func, eff.chain, eff.kind,
                                    eff.field))

    def run_nested(self):
        node = self.func.node
        cfg = CFG(node, may_raise=lambda n: False)
        init = dict(self.outer_env)
        args = node.args
        for arg in args.posonlyargs + args.args + args.kwonlyargs:
            init[arg.arg] = EMPTY
        self.param_names = []
        forward_dataflow(cfg, _freeze(init),
                         lambda n, s, l: self._transfer(n, s, l), _join)
        return self.summary

    def _assign(self, tgt, value_expr, val, env, stmt):
        if isinstance(tgt, ast.Name):
            env[tgt.id] = val
        elif isinstance(tgt, (ast.Tuple, ast.List)):
            if isinstance(value_expr, (ast.Tuple, ast.List)) and len(
                    value_expr.elts) == len(tgt.elts) and not any(
                        isinstance(e, ast.Starred) for e in tgt.elts):
                for sub_t, sub_v in zip(tgt.elts, value_expr.elts):
                    self._assign(sub_t, sub_v, self.ev(sub_v, env), env,
                                 stmt)
            else:
                self._bind(tgt, deref(val), env)
        elif isinstance(tgt, (ast.Subscript, ast.Attribute)):
            base = self.ev(tgt.value, env)
            self._write(base, stmt, f'store {txt(tgt)[:50]} = ...')
            if isinstance(tgt, ast.Attribute) and isinstance(
                    tgt.value, ast.Name):
                # field-sensitive strong update of <name>.<field>
                env[f'{tgt.value.id}.{tgt.attr}'] = val
                return
            # the stored value becomes reachable from the base: if the base
            # is a local container, remember what it now holds
            root_name = tgt
            hops = 0
            while isinstance(root_name, (ast.Subscript, ast.Attribute)):
                if isinstance(root_name, ast.Attribute) and isinstance(
                        root_name.value, ast.Name) and \
                        f'{root_name.value.id}.{root_name.attr}' in env:
                    break
                hops += 1
                root_name = root_name.value
            key = None
            if isinstance(root_name, ast.Name):
                key = root_name.id
            elif isinstance(root_name, ast.Attribute):
                key = f'{root_name.value.id}.{root_name.attr}'
            if key is not None and val:
                add = val
                for _ in range(hops):
                    add = wrap(add)
                env[key] = env.get(key, EMPTY) | add
        elif isinstance(tgt, ast.Starred):
            self._assign(tgt.value, value_expr, wrap(val), env, stmt)

    def _bind(self, tgt, val, env, from_iter=False):
        if isinstance(tgt, ast.Name):
            env[tgt.id] = val
        elif isinstance(tgt, (ast.Tuple, ast.List)):
            for elt in tgt.elts:
                # tuples produced by items()/zip()/enumerate() are fresh and
                # immutable: their components are the elements themselves
                self._bind(elt.value if isinstance(elt, ast.Starred)
                           else elt, val, env)
        elif isinstance(tgt, (ast.Subscript, ast.Attribute)):
            base = self.ev(tgt.value, env)
            self._write(base, tgt, f'store {txt(tgt)[:50]} (loop target)')

    # -- effects -------------------------------------------------------------

    def _record(self, eff):
        if eff.key in self.effect_keys:
            return
        self.effect_keys.add(eff.key)
        self.summary.effects.append(eff)

    def _write(self, val, node, what, kind='write'):
        for root, dep, lay, fld, _hfl in val:
            if lay == 0 and isinstance(root, int):
                self._record(Effect(root, dep, getattr(node, 'lineno', 0),
                                    what, self.func, (), kind, fld))

    # -- expressions ---------------------------------------------------------

    def ev(self, expr, env):
        '''Value of expr; records the effects of the calls it contains.'''
        if expr is None:
            return EMPTY
        meth = getattr(self, '_ev_' + type(expr).__name__, None)
        if meth is not None:
            return meth(expr, env)
        # default: evaluate children for their effects, result fresh
        for child in ast.iter_child_nodes(expr):
            if isinstance(child, ast.expr):
                self.ev(child, env)
        return EMPTY

    def _ev_Name(self, expr, env):
        val = env.get(expr.id, EMPTY)
        # what was stored into the fields of this (local) object is
        # reachable from it
        prefix = expr.id + '.'
        for key, fval in env.items():
            if key.startswith(prefix) and fval:
                val = val | wrap(fval, holder=key[len(prefix):])
        return val

    def _ev_Constant(self, expr, env):
        return EMPTY

    def _ev_Attribute(self, expr, env):
        base = self.ev(expr.value, env)
        if expr.attr in ('shape', 'size', 'ndim', 'dtype', 'name', 'what',
                         '__class__', '__name__', 'start', 'stop', 'step',
                         'lineno', 'nbytes', 'itemsize'):
            return EMPTY
        if expr.attr == 'T':
            return base
        if isinstance(expr.value, ast.Name):
            pseudo = f'{expr.value.id}.{expr.attr}'
            if pseudo in env:
                return env[pseudo]
        prop = self._property(expr)
        if prop is not None:
            return self._apply(prop, True, False, expr, base, [], {},
                               recv_node=expr.value, arg_nodes=[], env=env)
        return deref(base, expr.attr)

    def _property(self, expr):
        '''FuncInfo of the @property read by this attribute access, when
        the receiver is `self` (class known) or the name is a property of
        exactly one class of the package.'''
        if not isinstance(expr.ctx, ast.Load):
            return None
        cands = self.an.properties.get(expr.attr)
        if not cands:
            return None
        if isinstance(expr.value, ast.Name) and expr.value.id == 'self' \
                and self.func.cls is not None:
            meth = self.program.find_method(self.func.cls, expr.attr)
            return meth if meth in cands else None
        if isinstance(expr.value, ast.Name) and \
                expr.value.id in self.local_types:
            meth = self.program.find_method(self.local_types[expr.value.id],
                                            expr.attr)
            return meth if meth in cands else None
        return cands[0] if len(cands) == 1 else None

    def _ev_Subscript(self, expr, env):
        base = self.ev(expr.value, env)
        self.ev(expr.slice, env)
        if isinstance(expr.ctx, ast.Load) and self._is_dd_expr(expr.value):
            origin = self._key_origin(expr, env)
            if origin == 'unguarded-constant':
                self._write(base, expr,
                            f'implicit insert by reading defaultdict '
                            f'{txt(expr)[:50]}', kind='dd-insert')
            elif origin == 'opaque' and any(
                    lay == 0 and isinstance(root, int)
                    for root, _d, lay, _f, _h in base):
                note = (f'{self.func.key}: read of defaultdict '
                        f'{txt(expr)[:50]} with a key of unknown origin '
                        f'(line {getattr(expr, "lineno", "?")})')
                self.summary.undecided.append(note)
                self.summary.ddreads[note] = {
                    root for root, _d, lay, _f, _h in base
                    if lay == 0 and isinstance(root, int)}
        return deref(base)

    def _key_origin(self, expr, env):
        '''"from-mapping" | "guarded" | "unguarded-constant" | "opaque".'''
        return self.an_key_origin(expr)

    def an_key_origin(self, sub):
        func = self.func
        info = _guard_info(func)
        return info.origin(sub)

    def _ev_Starred(self, expr, env):
        return self.ev(expr.value, env)

    def _ev_Tuple(self, expr, env):
        out = EMPTY
        for elt in expr.elts:
            out |= wrap(self.ev(elt, env))
        return out

    _ev_List = _ev_Tuple
    _ev_Set = _ev_Tuple

    def _ev_Dict(self, expr, env):
        out = EMPTY
        for key, val in zip(expr.keys, expr.values):
            if key is not None:
                self.ev(key, env)
                out |= wrap(self.ev(val, env))
            else:
                out |= shallow(self.ev(val, env))
        return out

    def _ev_IfExp(self, expr, env):
        self.ev(expr.test, env)
        return self.ev(expr.body, env) | self.ev(expr.orelse, env)

    def _ev_BoolOp(self, expr, env):
        out = EMPTY
        for val in expr.values:
            out |= self.ev(val, env)
        return out

    def _ev_NamedExpr(self, expr, env):
        val = self.ev(expr.value, env)
        env[expr.target.id] = val
        return val

    def _ev_Lambda(self, expr, env):
        # effects of the body with its params unknown
        local = dict(env)
        for arg in expr.args.args:
            local[arg.arg] = EMPTY
        self.ev(expr.body, local)
        return EMPTY

    def _comp(self, expr, env, elt_fn):
        local = dict(env)
        for gen in expr.generators:
            itv = self.ev(gen.iter, local)
            self._bind(gen.target, deref(itv), local)
            for cond in gen.ifs:
                self.ev(cond, local)
        return elt_fn(local)

    def _ev_ListComp(self, expr, env):
        return self._comp(expr, env, lambda loc: wrap(self.ev(expr.elt,
                                                              loc)))

    _ev_SetComp = _ev_ListComp
    _ev_GeneratorExp = _ev_ListComp

    def _ev_DictComp(self, expr, env):
        def elt(loc):
            self.ev(expr.key, loc)
            return wrap(self.ev(expr.value, loc))
        return self._comp(expr, env, elt)

    def _ev_JoinedStr(self, expr, env):
        for val in expr.values:
            if isinstance(val, ast.FormattedValue):
                self.ev(val.value, env)
        return EMPTY

    def _ev_Await(self, expr, env):
        return self.ev(expr.value, env)

    # -- calls ---------------------------------------------------------------

    def _ev_Call(self, call, env):
        cname = call_name(call)
        recv = receiver(call)
        argvals = [self.ev(a, env) for a in call.args]
        kwvals = {k.arg: self.ev(k.value, env) for k in call.keywords}
        recv_val = self.ev(recv, env) if recv is not None else None
        # out= keyword of numpy functions
        nocopy = False
        for kwd in call.keywords:
            if kwd.arg == 'out':
                self._write(kwvals['out'], call, f'out= {txt(call)[:50]}')
            if kwd.arg == 'copy' and isinstance(kwd.value, ast.Constant) \
                    and kwd.value.value is False:
                nocopy = True
        if nocopy and cname in MA_INPLACE_NOCOPY:
            pos = MA_INPLACE_NOCOPY[cname]
            arr = argvals[pos] if len(argvals) > pos else kwvals.get(
                'a', kwvals.get('x', EMPTY))
            self._write(arr, call, f'{cname}(..., copy=False) modifies the '
                                   f'mask of its array argument in place')
            return arr
        if nocopy and cname in ('array', 'asarray', 'astype',
                                'masked_array', 'MaskedArray') and (
                                    argvals or recv_val):
            # no copy: the result is a view of the argument
            return argvals[0] if argvals and cname != 'astype' else (
                recv_val or EMPTY)
        # ---- repo callee?
        cands = self._resolve(call, recv)
        if cands:
            self.an.calls_resolved += 1
            out = EMPTY
            for cand, bound, is_ctor in cands:
                out |= self._apply(cand, bound, is_ctor, call, recv_val,
                                   argvals, kwvals, recv_node=recv,
                                   arg_nodes=call.args, env=env)
            return out
        self.an.calls_unresolved += 1
        # ---- builtin / library models
        if recv is not None:
            if cname in MUTATORS:
                if not (cname in ('pop', 'setdefault', 'update', 'remove',
                                  'add', 'insert', 'index', 'put', 'fill',
                                  'resize', 'sort') and
                        self._recv_is_module(recv)):
                    self._write(recv_val, call,
                                f'mutating call {txt(call)[:60]}')
                    rkey = recv.id if isinstance(recv, ast.Name) else (
                        f'{recv.value.id}.{recv.attr}' if isinstance(
                            recv, ast.Attribute) and isinstance(
                                recv.value, ast.Name) and
                        f'{recv.value.id}.{recv.attr}' in env else None)
                    if cname in ('append', 'add', 'insert', 'extend',
                                 'update', 'setdefault', 'appendleft') and \
                            rkey is not None:
                        add = EMPTY
                        contents = argvals[1:] if cname in (
                            'setdefault', 'insert') else argvals
                        for val in contents:
                            add |= wrap(val) if cname not in (
                                'extend', 'update') else shallow(val)
                        env[rkey] = env.get(rkey, EMPTY) | add
            if cname in NP_INPLACE and self._recv_is_module(recv) and \
                    argvals:
                self._write(argvals[0], call,
                            f'numpy in-place {txt(call)[:60]}')
            if cname == 'copy' and not call.args:
                return shallow(recv_val)
            if cname == 'deepcopy':
                return EMPTY
            if cname in VIEW_METHODS and not self._recv_is_module(recv):
                if cname in ('get', 'pop', 'setdefault', 'popitem',
                             '__getitem__'):
                    out = deref(recv_val)
                    if cname in ('get', 'setdefault', 'pop') and \
                            len(argvals) > 1:
                        out |= argvals[1]
                    return out
                return recv_val
            if self._recv_is_module(recv):
                if cname in VIEW_FUNCS and argvals:
                    out = EMPTY
                    for val in argvals:
                        out |= val
                    return out
                if cname == 'copy' and argvals:       # copy.copy / np.copy
                    return shallow(argvals[0]) if dotted(recv) == 'copy' \
                        else EMPTY
                if cname in ('deepcopy', 'array'):
                    return EMPTY
                return EMPTY
            return EMPTY
        # plain name call
        if cname in ('dict', 'OrderedDict') and len(call.args) == 1 and \
                isinstance(call.args[0], (ast.GeneratorExp, ast.ListComp)) \
                and isinstance(call.args[0].elt, ast.Tuple) and len(
                    call.args[0].elt.elts) == 2:
            comp = call.args[0]
            return self._comp(comp, env, lambda loc: wrap(self.ev(
                comp.elt.elts[1], loc)))
        if cname in SHALLOW_COPY_FUNCS and argvals:
            out = EMPTY
            for val in argvals:
                out |= shallow(val)
            return out
        if cname in VIEW_FUNCS and argvals:
            out = EMPTY
            for val in argvals:
                out |= val
            return out
        if cname in ('setattr', 'delattr') and argvals:
            self._write(argvals[0], call, f'{cname} {txt(call)[:50]}')
        if cname == 'map' and len(call.args) >= 2:
            return wrap(EMPTY)
        return EMPTY

    def _recv_is_module(self, recv):
        name = dotted(recv)
        if name is None:
            return False
        head = name.split('.')[0]
        imp = self.func.module.imports.get(head)
        return imp is not None and imp[0] == 'module' or head in (
            'np', 'numpy', 'copy', 'os', 'math', 'itertools', 'functools',
            'random', 'plt', 'mpl', 'logging', 'LOGGER')

    def _resolve(self, call, recv):
        '''[(FuncInfo, bound_self: bool, is_ctor: bool)]'''
        func = self.func
        fexpr = call.func
        cname = call_name(call)
        # typed local receiver
        if isinstance(recv, ast.Name) and recv.id in self.local_types:
            meth = self.program.find_method(self.local_types[recv.id], cname)
            if meth is not None:
                return [(meth, True, False)]
        # typed field receiver: self.<field>.<method>(...)
        if isinstance(recv, ast.Attribute) and isinstance(
                recv.value, ast.Name) and recv.value.id == 'self' and \
                func.cls is not None:
            ftype = self.an.field_type(func.cls, recv.attr)
            if ftype is not None:
                meth = self.program.find_method(ftype, cname)
                if meth is not None:
                    return [(meth, True, False)]
        if isinstance(recv, ast.Call):
            rtype = self._returned_class(recv)
            if rtype is not None:
                meth = self.program.find_method(rtype, cname)
                if meth is not None:
                    return [(meth, True, False)]
        cands, how = self.program.resolve_call(func, call)
        if not cands:
            return []
        if how == 'by-unique-name' and cname in NOT_BY_NAME:
            return []
        if how == 'ctor':
            return [(c, True, True) for c in cands]
        if how in ('self', 'super', 'typed', 'by-unique-name'):
            out = []
            for cand in cands:
                static = any(txt(d) in ('staticmethod',)
                             for d in cand.node.decorator_list)
                out.append((cand, not static, False))
            return out
        if how in ('name', 'dotted'):
            out = []
            for cand in cands:
                # Class.method(obj, ...) : unbound; module function: unbound
                out.append((cand, False, False))
            return out
        return []

    def _returned_class(self, call):
        '''Class of the object returned by `call` when the callee is a repo
        function all of whose returns are constructor calls of one class
        (`return DepGraph(...)`, `return cls(...)`).'''
        inner = self._resolve(call, receiver(call))
        if len(inner) != 1:
            return None
        callee, _bound, is_ctor = inner[0]
        if is_ctor:
            return callee.cls
        found = set()
        for node in ast.walk(callee.node):
            if isinstance(node, ast.Return) and node.value is not None:
                val = node.value
                if isinstance(val, ast.Call):
                    if txt(val.func) in ('cls', 'self.__class__',
                                         'type(self)'):
                        found.add(callee.cls)
                        continue
                    res = self.program.resolve_name_expr(
                        callee.module, val.func, callee)
                    found.add(res if isinstance(res, ClassInfo) else None)
                else:
                    found.add(None)
        if len(found) == 1 and None not in found:
            return found.pop()
        return None

    def _apply(self, callee, bound, is_ctor, call, recv_val, argvals,
               kwvals, recv_node=None, arg_nodes=(), env=None):
        env = env if env is not None else {}
        summ = self.an.summary(callee, self.depth + 1)
        a = callee.node.args
        pnames = [x.arg for x in a.posonlyargs + a.args]
        # map callee param index -> (caller value, caller Name or None)
        binding = {}
        names = {}
        pos = 0
        if bound:
            binding[0] = EMPTY if is_ctor else (recv_val or EMPTY)
            if not is_ctor and isinstance(recv_node, ast.Name):
                names[0] = recv_node.id
            pos = 1
        extra = EMPTY
        for val, node in zip(argvals, arg_nodes):
            if isinstance(node, ast.Starred):
                extra |= deref(val)
                continue
            if pos < len(pnames):
                binding[pos] = val
                if isinstance(node, ast.Name):
                    names[pos] = node.id
                pos += 1
            else:
                extra |= val
        base = len(pnames)
        if a.vararg:
            binding[base] = wrap(extra)
            base += 1
        kwonly = [x.arg for x in a.kwonlyargs]
        allnames = pnames + ([a.vararg.arg] if a.vararg else []) + kwonly
        kwextra = EMPTY
        kwnodes = {k.arg: k.value for k in getattr(call, 'keywords', [])}
        for key, val in kwvals.items():
            if key is None:
                kwextra |= deref(val)
            elif key in allnames:
                binding[allnames.index(key)] = val
                if isinstance(kwnodes.get(key), ast.Name):
                    names[allnames.index(key)] = kwnodes[key].id
            else:
                kwextra |= val
        if a.kwarg:
            binding[len(allnames)] = wrap(kwextra)
        if summ is None:
            # recursion or depth bound: assume no effect, unknown result
            note = f'{self.func.key}: callee {callee.key} not summarised ' \
                   f'(depth bound / recursion)'
            if note not in self.summary.undecided:
                self.summary.undecided.append(note)
            return EMPTY

        def located(jroot, depth, fld):
            """caller values the callee object (param jroot, `depth` below,
            through field fld) corresponds to: (value, remaining depth,
            field to give to a value that is the root object itself)"""
            name = names.get(jroot)
            if name is not None and fld is not None and depth >= 1 and \
                    f'{name}.{fld}' in env:
                return env[f'{name}.{fld}'], depth - 1, None
            return binding.get(jroot, EMPTY), depth, fld

        lineno = getattr(call, 'lineno', 0)
        for eff in summ.effects:
            val, rem, fld0 = located(eff.root, eff.depth, eff.field)
            for root, dep, lay, fld, hfl in val:
                if not isinstance(root, int):
                    continue
                if lay >= 1 and hfl is not None and fld0 is not None and \
                        fld0 != hfl:
                    continue      # the effect goes through another field
                if rem >= lay or eff.depth >= DCAP:
                    ndep = min(dep + max(rem - lay, 0), DCAP)
                    nfld = fld if fld is not None else (
                        fld0 if dep == 0 and lay == 0 else None)
                    self._record(Effect(
                        root, ndep, lineno, eff.what, eff.func,
                        (f'{self.func.key}:{lineno}',) + eff.chain,
                        eff.kind, nfld))
        for und in summ.undecided:
            if und in summ.ddreads:
                # the defaultdict of the callee's object: of interest to the
                # caller only when that object is one of ITS operands (not
                # an object it has just built)
                roots = {root for jroot in summ.ddreads[und]
                         for root, _d, lay, _f, _h in binding.get(
                             jroot, EMPTY)
                         if isinstance(root, int) and lay == 0}
                if not roots:
                    continue
                self.summary.ddreads.setdefault(und, set()).update(roots)
            if und not in self.summary.undecided:
                self.summary.undecided.append(und)
        if is_ctor and summ.fields is None:
            out = EMPTY
            for idx, val in binding.items():
                if idx != 0:
                    out |= wrap(val)
            return out

        def mapped(rets, holder=None):
            out = set()
            for jroot, dret, nret, fret, hret in rets:
                val, rem, fld0 = located(jroot, dret, fret)
                for root, dep, lay, fld, hfl in val:
                    if lay >= 1 and hfl is not None and fld0 is not None \
                            and fld0 != hfl and rem >= 1:
                        continue
                    if rem >= lay:
                        nfld = fld if fld is not None else (
                            fld0 if dep == 0 and lay == 0 else None)
                        out.add((root, min(dep + rem - lay, DCAP), nret,
                                 nfld, holder if holder else hret))
                    else:
                        out.add((root, dep, min(nret + lay - rem, FAR), fld,
                                 holder if holder else (
                                     hfl if nret == 0 else hret)))
            return out
        if is_ctor:
            out = set()
            for fname, fval in summ.field_map.items():
                out |= mapped(wrap(fval), holder=fname)
            out |= mapped(summ.fields - frozenset().union(*(
                wrap(v) for v in summ.field_map.values()))
                          if summ.field_map else summ.fields)
            return frozenset(out)
        return frozenset(mapped(summ.returns))


def _as_load(node):
    import copy
    new = copy.copy(node)
    new.ctx = ast.Load()
    return new


def _freeze(env):
    return tuple(sorted(((k, v) for k, v in env.items() if v),
                        key=lambda kv: kv[0]))


def _join(one, two):
    merged = dict(one)
    for key, val in two:
        merged[key] = merged.get(key, EMPTY) | val
    return _freeze(merged)


def _outer_only(env):
    return {k: v for k, v in env.items() if v}


# ---------------------------------------------------------------- guards ---

_GUARD_CACHE = {}


class _GuardInfo:
    '''Lexical facts of one function used to classify the key of a
    defaultdict read: is the key drawn from the mapping itself, guarded by a
    membership test, or a constant / enum member nothing vouches for?

    Origins (flow-insensitive, per name): 'mapping:<text>' (a key of that
    mapping), 'enum' (a literal, an enum member or a value ranging over an
    enum class), 'opaque'.'''

    def __init__(self, func):
        self.func = func
        self.parents = {}
        for node in ast.walk(func.node):
            for child in ast.iter_child_nodes(node):
                self.parents[id(child)] = node
        self.params = set(func.params)
        self.loops = {}      # name -> [(iter expr, position in target)]
        self.assigns = {}    # name -> [value expr]
        self.adds = {}       # list name -> [('elt', expr) | ('iter', expr)]
        for node in ast.walk(func.node):
            if isinstance(node, (ast.For, ast.comprehension)):
                tgt = node.target
                if isinstance(tgt, ast.Name):
                    self.loops.setdefault(tgt.id, []).append((node.iter,
                                                              None))
                else:
                    for idx, elt in enumerate(getattr(tgt, 'elts', [])):
                        for sub in ast.walk(elt):
                            if isinstance(sub, ast.Name):
                                self.loops.setdefault(sub.id, []).append(
                                    (node.iter, idx))
            elif isinstance(node, ast.Assign) and len(node.targets) == 1 \
                    and isinstance(node.targets[0], ast.Name):
                self.assigns.setdefault(node.targets[0].id, []).append(
                    node.value)
            elif isinstance(node, ast.Call) and isinstance(
                    node.func, ast.Attribute) and isinstance(
                        node.func.value, ast.Name) and node.args:
                if node.func.attr in ('append', 'add', 'insert'):
                    self.adds.setdefault(node.func.value.id, []).append(
                        ('elt', node.args[-1]))
                elif node.func.attr in ('extend', 'update'):
                    self.adds.setdefault(node.func.value.id, []).append(
                        ('iter', node.args[0]))

    # -- origins -------------------------------------------------------------

    def value_origin(self, expr, seen):
        if isinstance(expr, ast.Constant):
            return {'enum'}
        if isinstance(expr, ast.Attribute) and expr.attr.isupper():
            return {'enum'}
        if isinstance(expr, ast.Name):
            return self.name_origin(expr.id, seen)
        if isinstance(expr, ast.IfExp):
            return self.value_origin(expr.body, seen) | \
                self.value_origin(expr.orelse, seen)
        return {'opaque'}

    def name_origin(self, name, seen):
        if ('n', name) in seen:
            return set()
        seen = seen | {('n', name)}
        out = set()
        for iter_, pos in self.loops.get(name, []):
            out |= self.elem_origin(iter_, seen, pos)
        for val in self.assigns.get(name, []):
            out |= self.value_origin(val, seen)
        if not out or name in self.params:
            out.add('opaque')
        return out

    def elem_origin(self, expr, seen, pos=None):
        '''Origins of the elements produced by iterating expr (component
        `pos` of them when they are tuples).'''
        if isinstance(expr, ast.Call) and isinstance(expr.func, ast.Name) \
                and expr.args:
            fname = expr.func.id
            if fname in ('sorted', 'list', 'tuple', 'set', 'reversed',
                         'iter', 'frozenset'):
                return self.elem_origin(expr.args[0], seen, pos)
            if fname == 'enumerate':
                if pos == 0:
                    return {'opaque'}
                return self.elem_origin(expr.args[0], seen, None)
            if fname == 'zip':
                if pos is not None and pos < len(expr.args):
                    return self.elem_origin(expr.args[pos], seen, None)
                out = set()
                for arg in expr.args:
                    out |= self.elem_origin(arg, seen, None)
                return out
            return {'opaque'}
        if isinstance(expr, ast.Call) and isinstance(expr.func,
                                                     ast.Attribute):
            meth = expr.func.attr
            if meth == 'keys':
                return {'mapping:' + txt(expr.func.value)}
            if meth == 'items':
                return {'mapping:' + txt(expr.func.value)} if pos in (
                    0, None) else {'opaque'}
            return {'opaque'}
        if isinstance(expr, ast.Attribute) and expr.attr == '__class__':
            return {'enum'}
        if isinstance(expr, (ast.ListComp, ast.GeneratorExp, ast.SetComp)):
            return self.value_origin(expr.elt, seen)
        if isinstance(expr, (ast.List, ast.Tuple, ast.Set)):
            out = set()
            for elt in expr.elts:
                out |= self.value_origin(elt, seen)
            return out
        if isinstance(expr, ast.Name):
            name = expr.id
            if name[:1].isupper():
                return {'enum'}          # iteration over an enum class
            if ('l', name) in seen:
                return set()
            seen = seen | {('l', name)}
            built = False
            out = set()
            for val in self.assigns.get(name, []):
                if isinstance(val, (ast.List, ast.Tuple, ast.Set,
                                    ast.ListComp, ast.SetComp,
                                    ast.GeneratorExp)) or (
                                        isinstance(val, ast.Call) and
                                        isinstance(val.func, ast.Name)):
                    built = True
                    out |= self.elem_origin(val, seen, pos)
                else:
                    out.add('mapping:' + name)
            for kind, arg in self.adds.get(name, []):
                built = True
                out |= self.value_origin(arg, seen) if kind == 'elt' else \
                    self.elem_origin(arg, seen, None)
            if not built:
                return {'mapping:' + name}
            return out
        if isinstance(expr, (ast.Attribute, ast.Subscript)):
            return {'mapping:' + txt(expr)}
        return {'opaque'}

    def origin(self, sub):
        mapping = txt(sub.value)
        key = sub.slice
        ktxt = txt(key)
        if self._guarded(sub, ktxt, mapping):
            return 'guarded'
        origins = self.value_origin(key, frozenset())
        if 'enum' in origins:
            return 'unguarded-constant'
        if origins and all(o.startswith('mapping:') and
                           _same_map(o[8:], mapping) for o in origins):
            return 'from-mapping'
        return 'opaque'

    def _guarded(self, node, ktxt, mapping):
        cur = node
        while True:
            par = self.parents.get(id(cur))
            if par is None:
                return False
            if isinstance(par, ast.If) and cur in par.body and \
                    _membership(par.test, ktxt, mapping) is True:
                return True
            if isinstance(par, ast.If) and cur in par.orelse and \
                    _membership(par.test, ktxt, mapping) is False:
                return True
            if isinstance(par, ast.IfExp) and cur is par.body and \
                    _membership(par.test, ktxt, mapping) is True:
                return True
            if isinstance(par, ast.IfExp) and cur is par.orelse and \
                    _membership(par.test, ktxt, mapping) is False:
                return True
            if isinstance(par, ast.BoolOp) and isinstance(par.op, ast.And):
                idx = par.values.index(cur) if cur in par.values else -1
                if any(_membership(v, ktxt, mapping) is True
                       for v in par.values[:max(idx, 0)]):
                    return True
            if isinstance(par, (ast.ListComp, ast.SetComp, ast.DictComp,
                                ast.GeneratorExp)):
                for gen in par.generators:
                    if any(_membership(c, ktxt, mapping) is True
                           for c in gen.ifs):
                        return True
            # early exit: a preceding `if key not in mapping: return/continue
            # /raise` in the same block
            for fld in ('body', 'orelse', 'finalbody'):
                block = getattr(par, fld, None)
                if isinstance(block, list) and cur in block:
                    for prev in block[:block.index(cur)]:
                        if isinstance(prev, ast.If) and not prev.orelse and \
                                _membership(prev.test, ktxt, mapping) is \
                                False and _leaves(prev.body):
                            return True
            if isinstance(par, (ast.FunctionDef, ast.AsyncFunctionDef,
                                ast.Lambda)):
                return False
            cur = par


def _leaves(body):
    return bool(body) and isinstance(body[-1], (ast.Return, ast.Continue,
                                                ast.Raise, ast.Break))


def _same_map(one, two):
    norm = lambda t: t.replace('.index', '') if t.endswith('.index') else t
    return one == two or norm(one) == norm(two)


def _membership(test, ktxt, mapping):
    '''True if test asserts `key in mapping`, False if `key not in mapping`,
    None otherwise.'''
    if isinstance(test, ast.UnaryOp) and isinstance(test.op, ast.Not):
        inner = _membership(test.operand, ktxt, mapping)
        return None if inner is None else not inner
    if isinstance(test, ast.Compare) and len(test.ops) == 1 and \
            txt(test.left) == ktxt:
        right = txt(test.comparators[0])
        if _same_map(right, mapping) or right in (
                f'{mapping}.keys()', f'set({mapping})'):
            if isinstance(test.ops[0], ast.In):
                return True
            if isinstance(test.ops[0], ast.NotIn):
                return False
    if isinstance(test, ast.BoolOp) and isinstance(test.op, ast.And):
        if any(_membership(v, ktxt, mapping) is True for v in test.values):
            return True
    return None


def _is_enum_iter(iter_):
    '''Iteration over an enum class (`for s in Status`, `for s in
    x.__class__`): the keys range over all members.'''
    if isinstance(iter_, ast.Attribute) and iter_.attr == '__class__':
        return True
    if isinstance(iter_, ast.Name) and iter_.id[:1].isupper():
        return True
    return False


def _guard_info(func):
    key = id(func.node)
    info = _GUARD_CACHE.get(key)
    if info is None or info.func is not func:
        info = _GuardInfo(func)
        if len(_GUARD_CACHE) > 2000:
            _GUARD_CACHE.clear()
        _GUARD_CACHE[key] = info
    return info


# ----------------------------------------------------- defaultdict typing ---

def defaultdict_typing(program):
    '''Global pre-pass.  Returns (dd_fields, dd_params, index_fields):
    attribute names that hold a defaultdict (assigned from defaultdict(...)
    in a method, or from an __init__ parameter that some constructor call
    site feeds with a defaultdict-typed local), function parameters fed with
    defaultdict-typed expressions, and attribute names holding an instance
    of a class whose __getitem__ delegates to a defaultdict field.'''
    dd_fields = set()
    dd_params = {}
    index_classes = set()
    # one walk per function: the assignments and the calls
    facts = []
    for func in program.all_functions():
        assigns, calls, rets = [], [], []
        for sub in ast.walk(func.node):
            if isinstance(sub, ast.Assign) and len(sub.targets) == 1:
                assigns.append(sub)
            elif isinstance(sub, ast.Call):
                calls.append(sub)
            elif isinstance(sub, ast.Return) and sub.value is not None:
                rets.append(sub)
        facts.append((func, assigns, calls, rets))
    resolved = {}
    changed = True
    rounds = 0
    while changed and rounds < 6:
        changed = False
        rounds += 1
        for func, assigns, calls, _rets in facts:
            locals_dd = set(dd_params.get(func.key, ()))
            for sub in assigns:
                tgt, val = sub.targets[0], sub.value

                def dd_value(val, locals_dd=locals_dd):
                    return (isinstance(val, ast.Call) and
                            call_name(val) == 'defaultdict') or \
                        (isinstance(val, ast.Name) and val.id in locals_dd) \
                        or (isinstance(val, ast.Attribute) and
                            val.attr in dd_fields and isinstance(
                                val.value, ast.Name))
                # `defaultdict(list) if arg is None else arg`: may be one
                is_dd = dd_value(val) or (isinstance(val, ast.IfExp) and (
                    dd_value(val.body) or dd_value(val.orelse)))
                if not is_dd:
                    continue
                if isinstance(tgt, ast.Name) and tgt.id not in locals_dd:
                    locals_dd.add(tgt.id)
                    changed = True
                if isinstance(tgt, ast.Attribute) and isinstance(
                        tgt.value, ast.Name) and tgt.value.id == 'self' \
                        and tgt.attr not in dd_fields:
                    dd_fields.add(tgt.attr)
                    changed = True
            if not locals_dd and not dd_fields:
                continue
            # call sites feeding parameters
            for sub in calls:
                feeds = []
                for idx, arg in enumerate(sub.args):
                    if _dd_arg(arg, locals_dd, dd_fields):
                        feeds.append((idx, None))
                for kwd in sub.keywords:
                    if kwd.arg and _dd_arg(kwd.value, locals_dd, dd_fields):
                        feeds.append((None, kwd.arg))
                if not feeds:
                    continue
                if id(sub) not in resolved:
                    resolved[id(sub)] = program.resolve_call(func, sub)
                cands, how = resolved[id(sub)]
                if how == 'by-unique-name':
                    continue
                for cand in cands:
                    a = cand.node.args
                    pnames = [x.arg for x in a.posonlyargs + a.args]
                    bound = how in ('ctor', 'self', 'super', 'typed')
                    kwonly = [x.arg for x in a.kwonlyargs]
                    for idx, kwname in feeds:
                        pname = None
                        if kwname is not None and kwname in \
                                pnames + kwonly:
                            pname = kwname
                        elif idx is not None:
                            pos = idx + (1 if bound else 0)
                            if pos < len(pnames):
                                pname = pnames[pos]
                        if pname is None:
                            continue
                        cur = dd_params.setdefault(cand.key, set())
                        if pname not in cur:
                            cur.add(pname)
                            changed = True
    for cinfo in program.all_classes():
        meth = cinfo.methods.get('__getitem__')
        if meth is None:
            continue
        for sub in ast.walk(meth.node):
            if isinstance(sub, ast.Attribute) and sub.attr in dd_fields and \
                    isinstance(sub.value, ast.Name) and sub.value.id == \
                    'self':
                index_classes.add(cinfo.name)
    index_fields = set()
    for func, assigns, _calls, rets in facts:
        names = {sub.targets[0].id: call_name(sub.value) for sub in assigns
                 if isinstance(sub.targets[0], ast.Name) and isinstance(
                     sub.value, ast.Call)}
        out = set()
        for sub in rets:
            if isinstance(sub.value, ast.Call):
                out.add(call_name(sub.value))
            elif isinstance(sub.value, ast.Name) and sub.value.id in names:
                out.add(names[sub.value.id])
        if out & index_classes:
            index_fields.add(('func', func.name))
    for func, assigns, _calls, _rets in facts:
        for sub in assigns:
            if isinstance(sub.value, ast.Call):
                cname = call_name(sub.value)
                tgt = sub.targets[0]
                if cname in index_classes or ('func', cname) in index_fields:
                    if isinstance(tgt, ast.Attribute):
                        index_fields.add(tgt.attr)
                    elif isinstance(tgt, ast.Name):
                        index_fields.add(tgt.id)
    index_names = {f for f in index_fields if isinstance(f, str)}
    return dd_fields, dd_params, index_names, index_classes


def _dd_arg(arg, locals_dd, dd_fields):
    if isinstance(arg, ast.Name):
        return arg.id in locals_dd
    if isinstance(arg, ast.Attribute):
        return arg.attr in dd_fields
    if isinstance(arg, ast.Call) and call_name(arg) == 'defaultdict':
        return True
    return False


def _returned_classes(program, func):
    out = set()
    names = {}
    for sub in ast.walk(func.node):
        if isinstance(sub, ast.Assign) and len(sub.targets) == 1 and \
                isinstance(sub.targets[0], ast.Name) and isinstance(
                    sub.value, ast.Call):
            names[sub.targets[0].id] = call_name(sub.value)
    for sub in ast.walk(func.node):
        if isinstance(sub, ast.Return) and sub.value is not None:
            if isinstance(sub.value, ast.Call):
                out.add(call_name(sub.value))
            elif isinstance(sub.value, ast.Name) and sub.value.id in names:
                out.add(names[sub.value.id])
    return out
