'''F18 (C18): TestStatsTests.evaluate classifies an item that is not a
TestResult twice (NOT_A_TEST and then SUCCESS/FAILURE), or crashes on it.
Exit 1 = reproduced.'''
import sys
sys.path.insert(0, '/repo')
from valjean.gavroche.diagnostics.stats import (   # noqa: E402
    TestStatsTests, TestOutcome)
from valjean.gavroche.test import Test             # noqa: E402


class Dummy(Test):
    def evaluate(self):
        return None

    def data(self):
        yield b'x'


class Fake:
    '''not a TestResult, but with a .test (e.g. a result-like object of a
    user extension)'''
    def __init__(self):
        self.test = Dummy(name='fake')

    def __bool__(self):
        return True


bad = []
# (a) a result-like object that is not a TestResult
res = TestStatsTests(name='s', task_results=[
    ('t1', {'result': [Fake()]})]).evaluate()
counted = sum(len(v) for v in res.classify.values())
print('(a) classify =', dict(res.classify), 'items counted:', counted)
if counted != 1:
    bad.append('one observed item is listed %d times' % counted)
# (b) a plain string in the result list
try:
    res = TestStatsTests(name='s', task_results=[
        ('t1', {'result': ['not a test']})]).evaluate()
    counted = sum(len(v) for v in res.classify.values())
    print('(b) classify =', dict(res.classify))
    if counted != 1 or TestOutcome.NOT_A_TEST not in res.classify:
        bad.append('string item listed %d times' % counted)
except AttributeError as err:
    print('(b) AttributeError:', err)
    bad.append('evaluate() crashes on a non-test item: %s' % err)
print('F18', 'REPRODUCED: ' + '; '.join(bad) if bad else 'not reproduced')
sys.exit(1 if bad else 0)
