'''Reproducers for the scheduler defects F01-F06 (triage artefacts only: no
registered command runs them).  Usage: /venv/bin/python repro/sched.py F01
Exit 1 = defect manifests, 0 = not reproduced.'''
import sys
import threading
import time

sys.path.insert(0, '/repo')
from valjean.cosette.task import Task, TaskStatus          # noqa: E402
from valjean.cosette.depgraph import DepGraph              # noqa: E402
from valjean.cosette.scheduler import Scheduler            # noqa: E402
from valjean.cosette.env import Env                        # noqa: E402
from valjean.cosette.backends.queue import QueueScheduling  # noqa: E402


class Fn(Task):
    def __init__(self, name, fn, deps=None, soft_deps=None):
        super().__init__(name, deps=deps, soft_deps=soft_deps)
        self.fn = fn

    def do(self, env, config):
        return self.fn(env)


def graph(tasks):
    hard, soft = DepGraph(), DepGraph()
    for t in tasks:
        hard.add_node(t)
        soft.add_node(t)
        for d in t.depends_on:
            hard.add_dependency(t, on=d)
        for d in t.soft_depends_on:
            soft.add_dependency(t, on=d)
    return hard, soft


def run(tasks, env=None, workers=3, timeout=5.0):
    hard, soft = graph(tasks)
    sched = Scheduler(hard_graph=hard, soft_graph=soft,
                      backend=QueueScheduling(workers))
    box = {}

    def target():
        try:
            box['env'] = sched.schedule(env=env)
        except BaseException as err:   # pylint: disable=broad-except
            box['err'] = err
    thr = threading.Thread(target=target, daemon=True)
    thr.start()
    thr.join(timeout)
    box['hung'] = thr.is_alive()
    return box


def f01():
    '''Worker of `a` parked between the status write and the payload write;
    unrelated task `o` wakes the master; dependent `b` reads env['a'].'''
    seen = {}
    gate = threading.Event()
    b_started = threading.Event()

    def tracer(frame, event, arg):
        if frame.f_code.co_name == 'apply' and \
                frame.f_code.co_filename.endswith('cosette/env.py') and \
                event == 'call':
            upd = frame.f_locals.get('env_update')
            if isinstance(upd, dict) and upd.get('a', {}).get('result') \
                    == 'payload':
                gate.set()                 # status already written?
                b_started.wait(3.0)        # park until b ran (or timeout)
        return None

    def a_fn(env):
        return {'a': {'result': 'payload'}}, TaskStatus.DONE

    def o_fn(env):
        gate.wait(3.0)
        time.sleep(0.05)
        return {}, TaskStatus.DONE

    def b_fn(env):
        seen['a'] = dict(env.get('a', {}))
        b_started.set()
        return {}, TaskStatus.DONE
    a = Fn('a', a_fn)
    o = Fn('o', o_fn)
    b = Fn('b', b_fn, deps=[a])
    threading.settrace(tracer)
    try:
        box = run([a, o, b])
    finally:
        threading.settrace(None)
    print('b saw env[a] =', seen.get('a'), 'hung' if box['hung'] else '')
    return 'result' not in seen.get('a', {'result': 1})


def f02():
    box = run([Fn('x', lambda env: 42)], timeout=3.0)
    print('hung:', box['hung'], 'err:', box.get('err'))
    return box['hung'] or 'err' in box


def f03():
    before = threading.active_count()
    x = Fn('x', lambda env: ({}, 'foo'))
    box = run([x, Fn('y', lambda env: ({}, TaskStatus.DONE), deps=[x])],
              timeout=3.0)
    time.sleep(0.2)
    print('hung:', box['hung'], 'err:', repr(box.get('err')),
          'threads left:', threading.active_count() - before)
    return box['hung'] or 'err' in box


def f04():
    a = Fn('a', lambda env: ({}, TaskStatus.DONE))
    b = Fn('b', lambda env: ({}, TaskStatus.DONE), deps=[a])
    a.depends_on.add(b)
    before = threading.active_count()
    box = run([a, b], workers=2, timeout=3.0)
    time.sleep(0.2)
    left = threading.active_count() - before
    print('err:', repr(box.get('err')), 'worker threads left alive:', left)
    return left > 0


def _chain(bfn=None):
    log = []

    def mk(name, fn=None):
        def body(env):
            log.append(name)
            time.sleep(0.01)
            return ({name: {'v': 1}}, TaskStatus.DONE) if fn is None \
                else fn(env)
        return body
    a = Fn('a', mk('a'))
    b = Fn('b', mk('b', bfn), deps=[a])
    c = Fn('c', mk('c'), deps=[b])
    return [a, b, c], log


def f05():
    tasks, log = _chain()
    box = run(tasks)
    env = box['env']
    # a's persisted entry is lost; b and c are DONE from the first run
    old = {k: dict(v) for k, v in env.items() if k in ('b', 'c')}
    env2 = Env()
    env2.merge_done_tasks(Env(old))
    del log[:]
    time.sleep(0.02)
    box = run(tasks, env=env2)
    env = box['env']
    print('second run executed:', log)
    stale = env['c']['status'] == TaskStatus.DONE and \
        env['c']['start_clock'] < env['b']['end_clock']
    print('c DONE with c.start < b.end:', stale)
    return stale


def f06():
    tasks, log = _chain()
    box = run(tasks)
    env = box['env']
    env2 = Env()
    env2.merge_done_tasks(Env({'c': dict(env['c'])}))
    tasks2, log2 = _chain(bfn=lambda env: ({}, TaskStatus.FAILED))
    box = run(tasks2, env=env2)
    env = box['env']
    stat = {k: TaskStatus(v['status']).name for k, v in env.items()}
    print('final statuses:', stat, 'executed:', log2)
    return stat.get('c') == 'DONE' and stat.get('b') == 'FAILED'


if __name__ == '__main__':
    which = sys.argv[1].lower()
    bad = globals()[which]()
    print(which.upper(), 'REPRODUCED' if bad else 'not reproduced')
    import os
    os._exit(1 if bad else 0)
