'''F19 (C19): CheckoutTask / BuildTask build their directory and log file
from the raw task name: two different tasks can share one directory, and a
name that is not a valid file name is accepted.  Exit 1 = reproduced.'''
import os
import subprocess
import sys
import tempfile
sys.path.insert(0, '/repo')
from valjean.config import Config                    # noqa: E402
from valjean.cosette.code import CheckoutTask, BuildTask  # noqa: E402
from valjean.cosette.env import Env                  # noqa: E402
from valjean.cosette.task import TaskStatus          # noqa: E402

tmp = tempfile.mkdtemp()
proj = os.path.join(tmp, 'proj')
os.makedirs(proj)
genv = dict(os.environ, GIT_CONFIG_COUNT='1',
            GIT_CONFIG_KEY_0='init.defaultBranch',
            GIT_CONFIG_VALUE_0='master')
os.environ.update(genv)
for cmd in (['git', 'init', '-q', proj],
            ['git', '-C', proj, 'config', 'user.email', 'a@b.c'],
            ['git', '-C', proj, 'config', 'user.name', 'a']):
    subprocess.check_call(cmd)
open(os.path.join(proj, 'f.txt'), 'w').write('x\n')
subprocess.check_call(['git', '-C', proj, 'add', 'f.txt'])
subprocess.check_call(['git', '-C', proj, 'commit', '-q', '-m', 'c'])
config = Config()
config.set('path', 'output-root', os.path.join(tmp, 'out'))
config.set('path', 'log-root', os.path.join(tmp, 'log'))
bad = []
one = CheckoutTask(name='src', repository=proj)
two = CheckoutTask(name='./src', repository=proj)
up1, st1 = one.do(Env(), config)
try:
    up2, st2 = two.do(Env(), config)
except ValueError as err:
    print('second task rejected:', err)
    up2, st2 = None, 'rejected'
print('task src        ->', st1, up1['src']['output_dir'])
if up2 is not None:
    dir2 = os.path.realpath(up2['./src']['output_dir'])
    print('task ./src      ->', st2, dir2)
    if dir2 == os.path.realpath(up1['src']['output_dir']):
        bad.append('two different tasks share the directory ' + dir2)
try:
    three = BuildTask('..', proj)
    up3, st3 = three.do(Env(), config)
    print("BuildTask '..' ->", st3, up3['..']['output_dir'])
    bad.append("task name '..' accepted: build directory "
               + up3['..']['output_dir'] + ' is the parent of output-root '
               'entries')
except ValueError as err:
    print("BuildTask '..' rejected:", err)
print('F19', 'REPRODUCED: ' + '; '.join(bad) if bad else 'not reproduced')
sys.exit(1 if bad else 0)
