'''F21 (C03): a second schedule() call on the same Scheduler / backend never
comes back: the workers consume the stop sentinels without task_done(), the
queue (created once per backend) keeps n_workers unfinished items and the
next queue.join() blocks for ever.  Exit 1 = reproduced.'''
import sys
import threading
sys.path.insert(0, '/repo')
from valjean.cosette.depgraph import DepGraph                 # noqa: E402
from valjean.cosette.scheduler import Scheduler               # noqa: E402
from valjean.cosette.backends.queue import QueueScheduling    # noqa: E402
from valjean.cosette.pythontask import PythonTask             # noqa: E402
from valjean.cosette.task import TaskStatus                   # noqa: E402


def func():
    return {}, TaskStatus.DONE


task = PythonTask('a', func)
graph = DepGraph.from_dependency_dictionary({task: []})
backend = QueueScheduling(n_workers=2)
sched = Scheduler(hard_graph=graph, backend=backend)
sched.schedule()
print('first call returned; unfinished items left in the queue:',
      backend.queue.unfinished_tasks)
done = []
thr = threading.Thread(target=lambda: done.append(sched.schedule()),
                       daemon=True)
thr.start()
thr.join(5)
print('second call returned within 5 s:', bool(done))
bad = not done
print('F21', 'REPRODUCED' if bad else 'not reproduced')
sys.exit(1 if bad else 0)
