'''F13 (C12): (a) slicing a TableTemplate keeps the highlights of the whole
table: wrong cells are marked; (b) the statistics table has a highlight
column one shorter than the data: the 'total' row is dropped; (c) when no
task succeeded nothing is highlighted although the result is false.
Exit 1 = reproduced.'''
import sys
sys.path.insert(0, '/repo')
import numpy as np                                        # noqa: E402
from valjean.javert.templates import TableTemplate        # noqa: E402
from valjean.javert.rst import RstTable                   # noqa: E402
from valjean.javert import table_repr                     # noqa: E402
from valjean.gavroche.diagnostics.stats import TestStatsTasks  # noqa: E402
from valjean.cosette.task import TaskStatus               # noqa: E402

bad = []
# (a)
tab = TableTemplate(np.array([1., 2., 3., 4.]), np.array([10., 20., 30., 40.]),
                    headers=['a', 'b'],
                    highlights=[np.array([False, False, False, True]),
                                np.array([False, False, False, True])])
sub = tab[1:3]          # rows 2 and 3: none of them is highlighted
text = str(RstTable(sub))
print('(a) highlights of the slice:', [list(h) for h in sub.highlights])
print(text)
if any(len(h) != 2 for h in sub.highlights):
    bad.append('(a) sliced table keeps 4-long highlight columns')
sub2 = tab[3:]          # only the failing row
text2 = str(RstTable(sub2))
if ':hl:' not in text2:
    bad.append('(a) the failing row is not highlighted after slicing')
# (b) / (c)
res = TestStatsTasks(name='stats', task_results=[
    ('t1', {'status': TaskStatus.DONE}),
    ('t2', {'status': TaskStatus.FAILED})]).evaluate()
table = table_repr.repr_testresultstatstasks(res)[0]
text = str(RstTable(table))
print(text)
print('(b) data rows:', list(table.columns[0]), ' highlight column:',
      list(table.highlights[0]))
if 'total' not in text:
    bad.append("(b) the 'total' row is missing from the rendered table")
res = TestStatsTasks(name='stats', task_results=[
    ('t1', {'status': TaskStatus.FAILED}),
    ('t2', {'status': TaskStatus.FAILED})]).evaluate()
table = table_repr.repr_testresultstatstasks(res)[0]
text = str(RstTable(table))
print(text)
print('(c) verdict:', bool(res), ' highlight marks in the table:',
      text.count(':hl:`'))
if not bool(res) and ':hl:`' not in text:
    bad.append('(c) failing statistics (all tasks FAILED) rendered without '
               'any highlight')
print('F13', 'REPRODUCED: ' + '; '.join(bad) if bad else 'not reproduced')
sys.exit(1 if bad else 0)
