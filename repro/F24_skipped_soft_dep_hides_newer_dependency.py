'''F24 (C04): a restored DONE task is kept as up to date although a DONE
dependency finished after it started, when another (soft) dependency is
SKIPPED: QueueScheduling.last_end_time() returns None as soon as ONE
dependency has no end clock (a SKIPPED task never ran), and None is read as
"no dependencies".

The schedule is forced: the environment makes the master slow between two
examinations, so that the two quick tasks are finished by the workers before
the master looks at their dependents (on a loaded machine the same
interleaving happens by itself).

exit 0 = property holds, exit 1 = violated.'''
import sys, os, time
sys.path.insert(0, os.getcwd())
from valjean.cosette.task import Task, TaskStatus
from valjean.cosette.env import Env
from valjean.cosette.depgraph import DepGraph
from valjean.cosette.scheduler import Scheduler
from valjean.cosette.backends.queue import QueueScheduling

executed = []


class Quick(Task):
    def __init__(self, name, ok=True, **kw):
        super().__init__(name, **kw)
        self.ok = ok

    def do(self, env, config):
        executed.append(self.name)
        if not self.ok:
            raise RuntimeError('boom')
        return {self.name: {'result': time.time()}}, TaskStatus.DONE


class SlowMasterEnv(Env):
    '''The master thread pauses before each decision.'''
    def atomically(self, action):
        time.sleep(0.3)
        return super().atomically(action)


fail = Quick('fail', ok=False)
skip = Quick('skip', deps=[fail])
data = Quick('data')
top = Quick('top', deps=[data], soft_deps=[skip])
tasks = [fail, skip, data, top]
hard = DepGraph.from_dependency_dictionary(
    {t: list(t.depends_on) for t in tasks})
soft = DepGraph.from_dependency_dictionary(
    {t: list(t.soft_depends_on) for t in tasks})

# environment carried over from an earlier run: only `top` is DONE (the
# entry of `data` was lost), it started long ago
old_start = time.time() - 1000.
env = SlowMasterEnv({'top': {'status': TaskStatus.DONE,
                             'start_clock': old_start,
                             'end_clock': old_start + 1., 'result': 'old'}})
sched = Scheduler(hard_graph=hard, soft_graph=soft,
                  backend=QueueScheduling(n_workers=3))
env = sched.schedule(env=env)
print('executed:', executed)
print({t.name: env.get_status(t) for t in tasks})
data_end = env.get_end_clock(data)
top_start = env.get_start_clock(top)
print('data ended', data_end - old_start, 's after top started' )
if env.is_done(top) and env.is_done(data) and data_end > top_start:
    print('VIOLATED: top is reported DONE with its old results although its '
          'dependency data (DONE) finished after top started')
    sys.exit(1)
print('ok: top was executed again')
