'''F20 (C20): (a) a title that cannot be a file name is rejected only after
files were written; (b) a first-level section titled 'index' overwrites the
root page; (c) two sibling sections with the same title share one page.
Exit 1 = reproduced.'''
import os
import sys
import tempfile
sys.path.insert(0, '/repo')
import valjean.javert.representation as rpr          # noqa: E402
from valjean.javert.rst import Rst                   # noqa: E402
from valjean.javert.test_report import TestReport    # noqa: E402


def fmt(report):
    rst = Rst(rpr.Representation(rpr.FullRepresenter()))
    return rst.format_report(report=report, author='me', version='0')


def listing(root):
    out = []
    for dirpath, _dirs, files in os.walk(root):
        out += [os.path.relpath(os.path.join(dirpath, f), root)
                for f in files]
    return sorted(out)


bad = []
# (a)
tmp = tempfile.mkdtemp()
rep = TestReport(title='Main', content=[TestReport(title='ok'),
                                        TestReport(title='a/b')])
try:
    fmt(rep).write(os.path.join(tmp, 'out'))
    bad.append("(a) title 'a/b' accepted")
except ValueError as err:
    written = listing(os.path.join(tmp, 'out')) if os.path.isdir(
        os.path.join(tmp, 'out')) else []
    print('(a) rejected with:', err, '; files already written:', written)
    if written:
        bad.append(f'(a) title rejected after {len(written)} files were '
                   f'written')
# (b)
tmp = tempfile.mkdtemp()
rep = TestReport(title='Main', text='ROOT TEXT',
                 content=[TestReport(title='index', text='SECTION TEXT')])
try:
    fmt(rep).write(tmp)
    root_page = open(os.path.join(tmp, 'index.rst')).read()
    print('(b) index.rst contains ROOT TEXT:', 'ROOT TEXT' in root_page)
    if 'ROOT TEXT' not in root_page:
        bad.append("(b) section 'index' overwrote the root page")
except ValueError as err:
    print('(b) rejected:', err)
# (c)
tmp = tempfile.mkdtemp()
rep = TestReport(title='Main', content=[
    TestReport(title='dup', text='FIRST'),
    TestReport(title='dup', text='SECOND')])
try:
    fmt(rep).write(tmp)
    pages = [p for p in listing(tmp) if p.endswith('.rst')]
    page = open(os.path.join(tmp, 'dup.rst')).read()
    print('(c) pages:', pages, '; dup.rst holds both texts:',
          'FIRST' in page and 'SECOND' in page)
    if 'FIRST' in page and 'SECOND' in page:
        bad.append("(c) two sections titled 'dup' share one page")
except ValueError as err:
    print('(c) rejected:', err)
print('F20', 'REPRODUCED: ' + '; '.join(bad) if bad else 'not reproduced')
sys.exit(1 if bad else 0)
