import sys, os, re
sys.path.insert(0, '/repo')
from valjean.eponine.tripoli4.parse import Parser, ParserException
src = '/repo/tests/eponine/tripoli4/data/entropy.d.res.ceav5'
data = open(src, 'rb').read()
# last "simulation time (s): NNN" line
matches = list(re.finditer(rb'simulation time \(s\)\s*:\s*(\d+)', data))
m = matches[-1]
print('complete value:', m.group(1), 'n editions flags:', len(matches))
full = Parser(src)
ref = full.parse_from_index(-1)
print('complete listing simulation_time =', ref.res['batch_data'].get('simulation_time') if hasattr(ref,'res') else ref)
digits_start, digits_end = m.start(1), m.end(1)
for cut in range(digits_start + 1, digits_end):
    path = f'/tmp/f22_cut{cut}.res'
    open(path, 'wb').write(data[:cut])
    try:
        p = Parser(path)
        r = p.parse_from_index(-1)
        print('cut at', cut - digits_start, 'digits ->', r.res['batch_data'].get('simulation_time'), ' scan times', p.scan_res.times)
    except ParserException as e:
        print('cut', cut, 'ParserException', str(e)[:60])
