'''F17 (C17): Browser.filter_by rebuilds the sub-browser without the data key
of the original.  Exit 1 = reproduced.'''
import sys
sys.path.insert(0, '/repo')
from valjean.eponine.browser import Browser   # noqa: E402

items = [{'a': 1, 'b': 'x', 'data': [1, 2, 3]},
         {'a': 2, 'b': 'x', 'data': [4, 5]},
         {'a': 1, 'b': 'y', 'data': [6]}]
brw = Browser(items, data_key='data')
bad = []
try:
    sub = brw.filter_by(a=1)
    print('sub.data_key =', sub.data_key, ' keys =', sorted(sub.keys()))
    if sub.data_key != 'data':
        bad.append(f'sub-browser has data_key {sub.data_key!r}')
    if 'data' in sub.keys():
        bad.append('the data payload was indexed as metadata')
except TypeError as err:
    print('TypeError:', err)
    bad.append(f'filter_by raises TypeError: {err}')
print('F17', 'REPRODUCED: ' + '; '.join(bad) if bad else 'not reproduced')
sys.exit(1 if bad else 0)
