'''F16 (C15): the task caches of Use and RunTaskFactory are keyed by an
incomplete description of the request: different requests silently share
one task.  Exit 1 = reproduced.'''
import sys
sys.path.insert(0, '/repo')
from valjean.config import Config                      # noqa: E402
from valjean.cosette.env import Env                    # noqa: E402
from valjean.cosette.pythontask import PythonTask      # noqa: E402
from valjean.cosette.run import RunTaskFactory         # noqa: E402
from valjean.cosette.task import TaskStatus            # noqa: E402
from valjean.cosette.use import Use                    # noqa: E402

bad = []


def source():
    return {'src': {'result': 3, 'other': 30}}, TaskStatus.DONE


src = PythonTask('src', source)


def run_use(use):
    env = Env()
    env.apply(src.do(env=env, config=Config())[0])
    task = use.get_task()
    env.apply(task.do(env=env, config=Config())[0])
    return task, env[task.name]['result']


# (1) two different functions with the same name
def make(factor):
    def scale(x):
        return factor * x
    return scale


t1, r1 = run_use(Use.from_func(func=make(2), task=src))
t2, r2 = run_use(Use.from_func(func=make(5), task=src))
print('(1) same-named functions: tasks identical:', t1 is t2,
      'results', r1, r2)
if t1 is t2:
    bad.append('(1) two different functions named scale share one task '
               f'(second request returned {r2}, expected 15)')


# (2) same function, different key
def ident(x):
    return x


t3, r3 = run_use(Use.from_func(func=ident, task=src, key='result'))
t4, r4 = run_use(Use.from_func(func=ident, task=src, key='other'))
print('(2) different keys: tasks identical:', t3 is t4, 'results', r3, r4)
if t3 is t4:
    bad.append(f'(2) a different key returns the same task (got {r4}, '
               f'expected 30)')

# (3) factory: same name=, different extra arguments
fac = RunTaskFactory.from_executable('echo', name='echo')
a = fac.make(name='n', extra_args=['a'])
b = fac.make(name='n', extra_args=['b'])
print('(3) make(name=n, extra_args=a/b): identical:', a is b)
if a is b:
    bad.append('(3) make(name="n", extra_args=["b"]) returned the task '
               'built for ["a"]')

# (4) factory: different dependencies, same everything else
fac2 = RunTaskFactory.from_executable('echo', name='echo2')
c = fac2.make(extra_args=['x'])
d = fac2.make(extra_args=['x'], deps=[src])
print('(4) make(deps=[]) / make(deps=[src]): identical:', c is d,
      ' deps of second:', d.depends_on)
if c is d:
    bad.append('(4) a request with deps=[src] returned the task created '
               'without dependencies')


# (5) order of the injected tasks
def source2():
    return {'src2': {'result': 4}}, TaskStatus.DONE


src2 = PythonTask('src2', source2)


def pair(x, y):
    return (x, y)


def run_two(use):
    env = Env()
    env.apply(src.do(env=env, config=Config())[0])
    env.apply(src2.do(env=env, config=Config())[0])
    task = use.get_task()
    env.apply(task.do(env=env, config=Config())[0])
    return task, env[task.name]['result']


u_ab = Use.from_func(func=Use.from_func(func=pair, task=src), task=src2)
u_ba = Use.from_func(func=Use.from_func(func=pair, task=src2), task=src)
t5, r5 = run_two(u_ab)
t6, r6 = run_two(u_ba)
print('(5) injection order swapped: identical:', t5 is t6, r5, r6)
if t5 is t6:
    bad.append(f'(5) swapping the order of the injected tasks returns the '
               f'same task ({r6} twice)')


# (6) positional vs keyword injection, and the name of the keyword
def kw(x=None, y=None):
    return ('x', x, 'y', y)


t7, r7 = run_use(Use.from_func(func=kw, task=src, kwarg='x'))
t8, r8 = run_use(Use.from_func(func=kw, task=src, kwarg='y'))
print('(6) kwarg x / kwarg y: identical:', t7 is t8, r7, r8)
if t7 is t8:
    bad.append('(6) injection as keyword y returned the task injecting x')


# (7) serialize flag
def ser(x):
    return x


t9 = Use.from_func(func=ser, task=src, serialize=False).get_task()
t10 = Use.from_func(func=ser, task=src, serialize=True).get_task()
print('(7) serialize False/True: identical:', t9 is t10)
if t9 is t10:
    bad.append('(7) serialize=True returned the task created with '
               'serialize=False')


# (8) soft injection: the injected tasks are not in the name at all
def soft(x):
    return x


t11 = Use.from_func(func=soft, task=src, deps_type='soft').get_task()
t12 = Use.from_func(func=soft, task=src2, deps_type='soft').get_task()
print('(8) soft injection of src / src2: identical:', t11 is t12,
      t12.soft_depends_on)
if t11 is t12:
    bad.append('(8) soft injection of another task returned the first task')

# (9) factory: format kwargs / subprocess_args / soft_deps with name=
fac3 = RunTaskFactory.from_executable('echo', name='echo3',
                                      default_args=['{word}'])
e = fac3.make(name='m', word='a')
f = fac3.make(name='m', word='b')
g = fac3.make(extra_args=['z'])
h = fac3.make(extra_args=['z'], subprocess_args={'timeout': 1})
i = fac3.make(extra_args=['z'], soft_deps=[src])
print('(9) identical:', e is f, g is h, g is i)
if e is f:
    bad.append('(9a) make(name="m", word="b") returned the task for "a"')
if g is h:
    bad.append('(9b) different subprocess_args share one task')
if g is i:
    bad.append('(9c) different soft_deps share one task')
print('F16', 'REPRODUCED: ' + '; '.join(bad) if bad else 'not reproduced')
sys.exit(1 if bad else 0)
