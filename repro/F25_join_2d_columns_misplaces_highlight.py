'''F25: joining two TableTemplates whose columns are 2-D puts the highlight of
a cell on another cell.  Exit 1 when the rendered table marks a cell that was
not highlighted (or misses the one that was).'''
import sys
import numpy as np
from valjean.javert.templates import TableTemplate
from valjean.javert.rst import RstTable

a = TableTemplate(np.array([[1., 2.], [3., 4.]]), np.array([[.1, .2], [.3, .4]]),
                  headers=['v', 'e'],
                  highlights=[np.array([[False, False], [True, False]]),
                              np.array([[False, False], [False, False]])])
b = TableTemplate(np.array([[10., 20.], [30., 40.]]),
                  np.array([[1.1, 2.2], [3.3, 4.4]]), headers=['v', 'e'],
                  highlights=[np.array([[False, False], [False, False]]),
                              np.array([[False, False], [False, False]])])
a.join(b)
print('columns[0] shape', a.columns[0].shape, 'highlights[0] shape',
      np.asarray(a.highlights[0]).shape)
text = str(RstTable(a, num_fmt='{:.4g}'))
print(text)
marked = [ln for ln in text.splitlines() if ':hl:' in ln]
ok = len(marked) == 1 and ':hl:`3`' in marked[0]
print('marked rows:', marked)
sys.exit(0 if ok else 1)
