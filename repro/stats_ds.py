'''Reproducers F07-F11 (triage only). /venv/bin/python repro/stats_ds.py F08'''
import sys
from collections import OrderedDict
sys.path.insert(0, '/repo')
import numpy as np                                            # noqa: E402
from valjean.eponine.dataset import Dataset                   # noqa: E402
from valjean.gavroche.stat_tests.student import TestStudent   # noqa: E402
from valjean.gavroche.stat_tests.bonferroni import (TestBonferroni,   # noqa
                                                    TestHolmBonferroni)


def f07():
    res = TestStudent(Dataset(5.3, 0.2), Dataset(5.25, 0.08),
                      name='c').evaluate()
    print('verdict', bool(res), 'p', res.pvalue, 'test_pvalue',
          res.test_pvalue())
    return bool(res) and res.test_pvalue() in (False, [False])


def f08():
    ds1 = Dataset(np.array([1., np.nan, 3.]), np.array([.1, .1, .1]))
    ds2 = Dataset(np.array([1., 2., 3.]), np.array([.1, .1, .1]))
    stu = TestStudent(ds1, ds2, name='s', ndf=100)
    bon = TestBonferroni(name='b', test=stu, alpha=0.05).evaluate()
    hol = TestHolmBonferroni(name='h', test=stu, alpha=0.05).evaluate()
    print('student', bool(stu.evaluate()), 'pvalues',
          stu.evaluate().pvalue, 'bonferroni', bool(bon), 'holm', bool(hol))
    return bool(bon) or bool(hol)


def f09():
    ds = Dataset(np.array([1., 2.]), np.array([.1, .2]))
    a, b = (ds * -2).error, (ds / -2).error
    print('(ds*-2).error', a, '(ds/-2).error', b)
    return (a < 0).any() or (b < 0).any()


def f10():
    bins = OrderedDict([('e', np.array([0., 1., 2.]))])
    ds = Dataset(np.array([1., 2.]), np.array([.1, .2]), bins=bins)
    cop = ds.copy()
    cop.bins['e'][0] = 99.
    print('original bins after writing into the copy:', ds.bins['e'])
    return ds.bins['e'][0] == 99.


def f11():
    bins = OrderedDict([('e', np.arange(6.))])
    ds = Dataset(np.arange(5.), np.ones(5), bins=bins)
    sub = ds[-2:]
    print('ds[-2:] value', sub.value, 'edges', sub.bins['e'])
    bad1 = len(sub.bins['e']) != 3
    bins2 = OrderedDict([('a', np.arange(3.)), ('b', np.arange(4.))])
    ds2 = Dataset(np.ones((2, 3)), np.ones((2, 3)), bins=bins2)
    try:
        ds2[0:0, :].squeeze()
        bad2 = False
    except ValueError as err:
        print('squeeze of empty selection:', err)
        bad2 = True
    return bad1 or bad2


if __name__ == '__main__':
    bad = globals()[sys.argv[1].lower()]()
    print(sys.argv[1].upper(), 'REPRODUCED' if bad else 'not reproduced')
    sys.exit(1 if bad else 0)
