'''F12b: an IndexError raised by an array builder inside a pyparsing parse
action leaves Parser.parse_from_index as IndexError when that parse action
runs for the first time in the process (pyparsing 3.3 wraps it and re-raises
the original at parse_string), and as ParserException when the same action
already ran successfully earlier in the process.  Exit 1 = reproduced.'''
import sys
import logging
sys.path.insert(0, '/repo')
logging.disable(logging.CRITICAL)
from valjean.eponine.tripoli4.parse import Parser, ParserException  # noqa

BAD = '/repo/tests/eponine/tripoli4/data/failure_noaopt_uniform_sources.d.res'
GOOD = '/repo/tests/eponine/tripoli4/data/gauss_E_time_mu_phi.res.ceav5'


def attempt():
    try:
        Parser(BAD).parse_from_index(-1)
        return 'ok'
    except ParserException:
        return 'ParserException'
    except Exception as err:   # pylint: disable=broad-except
        return type(err).__name__


first = attempt()
Parser(GOOD).parse_from_index(-1)      # the spectrum action now ran once
second = attempt()
print('fresh process:', first, '| after parsing another listing:', second)
bad = first != 'ParserException' or second != 'ParserException'
print('F12b', 'REPRODUCED' if bad else 'not reproduced')
sys.exit(1 if bad else 0)
