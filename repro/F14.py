'''F14 (C13): representing a passing statistics result changes its verdict
(classification_counts indexes the defaultdict for every possible status).
Exit 1 = reproduced.'''
import sys
sys.path.insert(0, '/repo')
from valjean.gavroche.diagnostics.stats import (   # noqa: E402
    TestStatsTasks, classification_counts)
from valjean.cosette.task import TaskStatus        # noqa: E402
from valjean.javert import table_repr              # noqa: E402

res = TestStatsTasks(name='stats', task_results=[
    ('t1', {'status': TaskStatus.DONE}),
    ('t2', {'status': TaskStatus.DONE})]).evaluate()
before = bool(res)
keys_before = sorted(res.classify)
table_repr.repr_testresultstatstasks(res)
after = bool(res)
print('verdict before representation:', before, ' after:', after)
print('keys before:', keys_before, ' after:', sorted(res.classify))
bad = before != after or keys_before != sorted(res.classify)
print('F14', 'REPRODUCED' if bad else 'not reproduced')
sys.exit(1 if bad else 0)
