'''F12: Parser(path) on a truncated listing raises ValueError / IndexError
instead of ParserException.  Cuts every byte inside the lines the scanner
interprets.  Exit 1 = reproduced.'''
import os
import sys
import tempfile
import logging
from collections import Counter
sys.path.insert(0, '/repo')
logging.disable(logging.CRITICAL)
from valjean.eponine.tripoli4.parse import Parser, ParserException  # noqa

SRC = sys.argv[1] if len(sys.argv) > 1 else \
    '/repo/tests/eponine/tripoli4/data/gauss_E_time_mu_phi.res.ceav5'
KEYS = (b' batch number :', b'initialization time', b'Edition after batch',
        b'number of batches used', b'simulation time', b'BATCH',
        b'number of tasks')
blob = open(SRC, 'rb').read()
cuts = set()
pos = 0
for line in blob.splitlines(keepends=True):
    if any(k in line for k in KEYS):
        cuts.update(range(pos, pos + len(line) + 1))
    pos += len(line)
cuts = sorted(cuts)[:int(os.environ.get('MAXCUTS', '600'))]
tmp = tempfile.mkdtemp()
path = os.path.join(tmp, 'cut.res')
outcomes = Counter()
examples = {}
for cut in cuts:
    with open(path, 'wb') as fil:
        fil.write(blob[:cut])
    try:
        par = Parser(path)
        par.parse_from_index(-1)
        outcomes['ok'] += 1
    except ParserException:
        outcomes['ParserException'] += 1
    except Exception as err:   # pylint: disable=broad-except
        outcomes[type(err).__name__] += 1
        examples.setdefault(type(err).__name__, (cut, blob[max(0, cut-40):cut]))
print(len(cuts), 'cut points:', dict(outcomes))
for name, (cut, tail) in examples.items():
    print(' ', name, 'at byte', cut, 'tail', tail)
bad = set(outcomes) - {'ok', 'ParserException'}
print('F12', 'REPRODUCED' if bad else 'not reproduced')
sys.exit(1 if bad else 0)
