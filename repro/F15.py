'''F15: Env.from_file on an empty / truncated pickle raises instead of
returning None.  Exit 1 = reproduced.'''
import os
import sys
import tempfile
from collections import Counter
sys.path.insert(0, '/repo')
from valjean.cosette.env import Env          # noqa: E402
from valjean.cosette.task import TaskStatus  # noqa: E402
from valjean.cambronne.common import read_env  # noqa: E402

tmp = tempfile.mkdtemp()
os.makedirs(os.path.join(tmp, 't'))
path = os.path.join(tmp, 't', 'valjean.env')
Env({'t': {'status': TaskStatus.DONE, 'output_dir': tmp,
           'result': list(range(50))}}).to_file(path, task_name='t')
blob = open(path, 'rb').read()
outcomes = Counter()
for cut in range(len(blob)):
    with open(path, 'wb') as fil:
        fil.write(blob[:cut])
    try:
        env = read_env(root=tmp, names=['t'], filename='valjean.env',
                       fmt='pickle')
        outcomes['ok-empty' if 't' not in env else 'PARTIAL'] += 1
    except BaseException as err:   # pylint: disable=broad-except
        outcomes[type(err).__name__] += 1
print(len(blob), 'cut points:', dict(outcomes))
bad = set(outcomes) - {'ok-empty'}
print('F15', 'REPRODUCED' if bad else 'not reproduced')
sys.exit(1 if bad else 0)
