'''F16j: Use cache key joins the names of the injected tasks with ",":
injecting ONE task named "a,b" and injecting the TWO tasks "a" and "b" give
the same key "a,b.total": the second request silently gets the first task.'''
import sys, os
sys.path.insert(0, '/repo')
from valjean.cosette.task import TaskStatus
from valjean.cosette.pythontask import PythonTask
from valjean.cosette.use import Use

def const(name, val):
    return PythonTask(name, lambda: ({name: {'result': val}}, TaskStatus.DONE))

t_ab = const('a,b', 100)
t_a, t_b = const('a', 1), const('b', 2)

def total(*vals):
    return sum(vals)

use1 = Use(inj_args=[(t_ab, 'result')], wrapped=total)
use2 = Use(inj_args=[(t_a, 'result'), (t_b, 'result')], wrapped=total)
task1 = use1.get_task()
task2 = use2.get_task()
print('names:', task1.name, task2.name, 'same object:', task1 is task2)
print('deps of the second request:', sorted(d.name for d in task2.depends_on))
if task1 is task2:
    print('REPRODUCED: two requests that differ in their injected tasks share one task')
    sys.exit(1)
print('not reproduced')
