'''F26 (C03): a task whose do() returns a status that is a valid TaskStatus
but not a final one (PENDING / WAITING) is published with that status by the
worker (`status = TaskStatus(status)` accepts every member); the master only
releases a dependent when its dependencies are DONE / FAILED / SKIPPED, so the
dependent stays WAITING, nobody notifies the master again and
Scheduler.schedule() never comes back.

exit 0 = property holds, exit 1 = violated (the call hangs).'''
import os, sys, threading
from valjean.cosette.task import Task, TaskStatus
from valjean.cosette.depgraph import DepGraph
from valjean.cosette.scheduler import Scheduler
from valjean.cosette.env import Env


class Odd(Task):
    def __init__(self, name, status, deps=None):
        super().__init__(name, deps=deps)
        self.status = status

    def do(self, env, config):
        return {self.name: {'ran': True}}, self.status


res = 0
for status in (TaskStatus.PENDING, TaskStatus.WAITING):
    a = Odd('a', status)
    b = Odd('b', TaskStatus.DONE, deps=[a])
    graph = DepGraph.from_dependency_dictionary({b: [a], a: []})
    sched = Scheduler(hard_graph=graph)
    done = []
    thr = threading.Thread(target=lambda: done.append(sched.schedule(env=Env())),
                           daemon=True)
    thr.start()
    thr.join(5)
    print(status, 'came back' if done else 'HANGS after 5 s')
    if not done:
        res = 1
sys.stdout.flush()
os._exit(res)   # the worker threads of a hung call are not daemons
